"""Master-side pool of worker interpreters with per-case wall-clock watchdogs.
A case whose worker dies or exceeds its budget is reported ('timeout'/'died'), the worker is
respawned, and the caller counts it inconclusive - never a violation, never silently dropped.
multiprocessing.Pool is deliberately not used (it hangs when a child dies)."""
import json
import os
import queue
import select
import subprocess
import threading
import time

from . import env

NCPU = min(16, os.cpu_count() or 4)


class Worker:
    def __init__(self, hashseed="0", extra_env=None):
        self.hashseed = hashseed
        self.extra_env = extra_env
        self.proc = None
        self.buf = b""
        self.spawn()

    def spawn(self):
        self.kill()
        self.proc = subprocess.Popen(
            [env.PY, "-X", "faulthandler", "-m", "vlib.worker"],
            stdin=subprocess.PIPE,
            stdout=subprocess.PIPE,
            stderr=subprocess.DEVNULL,
            cwd=env.VERIF,
            env=env.child_env(self.hashseed, self.extra_env),
        )
        self.buf = b""

    def kill(self):
        if self.proc is not None:
            try:
                self.proc.kill()
                self.proc.wait(timeout=10)
            except Exception:
                pass
            for f in (self.proc.stdin, self.proc.stdout):
                try:
                    f.close()
                except Exception:
                    pass
            self.proc = None

    def call(self, op, arg, timeout):
        """-> (status, payload) with status in ok | err | timeout | died"""
        if self.proc is None or self.proc.poll() is not None:
            self.spawn()
        msg = (json.dumps({"id": 0, "op": op, "arg": arg}) + "\n").encode()
        try:
            self.proc.stdin.write(msg)
            self.proc.stdin.flush()
        except (BrokenPipeError, OSError):
            self.spawn()
            return "died", None
        deadline = time.monotonic() + timeout
        fd = self.proc.stdout.fileno()
        while b"\n" not in self.buf:
            left = deadline - time.monotonic()
            if left <= 0:
                self.spawn()
                return "timeout", None
            r, _, _ = select.select([fd], [], [], min(left, 1.0))
            if r:
                chunk = os.read(fd, 1 << 20)
                if not chunk:
                    self.spawn()
                    return "died", None
                self.buf += chunk
        line, self.buf = self.buf.split(b"\n", 1)
        resp = json.loads(line)
        if resp.get("ok"):
            return "ok", resp.get("res")
        return "err", resp.get("err")


class Pool:
    def __init__(self, n=None, hashseed="0", extra_env=None):
        self.n = n or NCPU
        self.hashseed = hashseed
        self.extra_env = extra_env
        self.workers = [Worker(hashseed, extra_env) for _ in range(self.n)]
        self.counts = {"ok": 0, "err": 0, "timeout": 0, "died": 0}

    def map(self, op, args, timeout=60.0, progress=None):
        """Run op(arg) for every arg; returns list of (status, payload) in order."""
        args = list(args)
        results = [None] * len(args)
        q = queue.Queue()
        for i, a in enumerate(args):
            q.put((i, a))
        done = [0]
        lock = threading.Lock()

        def run(w):
            while True:
                try:
                    i, a = q.get_nowait()
                except queue.Empty:
                    return
                st, payload = w.call(op, a, timeout)
                results[i] = (st, payload)
                with lock:
                    self.counts[st] += 1
                    done[0] += 1
                    if progress and done[0] % progress == 0:
                        print(f"  .. {done[0]}/{len(args)}", flush=True)

        threads = [threading.Thread(target=run, args=(w,), daemon=True) for w in self.workers]
        for t in threads:
            t.start()
        for t in threads:
            t.join()
        return results

    def call(self, idx, op, arg, timeout=60.0):
        st, payload = self.workers[idx % self.n].call(op, arg, timeout)
        self.counts[st] += 1
        return st, payload

    def close(self):
        for w in self.workers:
            w.kill()

    def __enter__(self):
        return self

    def __exit__(self, *a):
        self.close()
