"""Known-finding matchers. A matcher decides from the *mechanism* of a discrepancy (features of the input +
shape of the deviation) whether it is an instance of a listed finding - never from a case hash or a random
value. Matchers only take effect for ids present in /verif/known_findings.json (read-only at run time)."""
from . import sqlfeat


def _feat(case):
    return sqlfeat.features(case["sql"], case.get("dialect", "ansi"))


def c06(case, f):
    inv = f["inv"]
    feat = None
    if inv == "C06.path_min_len":
        return "KF-10"
    t = f.get("table")
    if inv in ("C06.source_table_not_read", "C06.table_graph_disconnected", "C06.table_graph_missing_node") and t:
        feat = _feat(case)
        b = sqlfeat.bare(t)
        if b in feat["lateral_view_aliases"]:
            return "KF-11"
        if b in feat["rename_old"]:
            return "KF-12"
        if b in feat["mixed_comma_join_names"]:
            return "KF-01"
        if b in feat["select_subquery_tables"]:
            return "KF-02"
        if b in feat["having_subquery_tables"]:
            return "KF-03"
    if inv == "C06.path_end_not_written" and t:
        feat = _feat(case)
        if sqlfeat.bare(t) in feat["rename_old"]:
            return "KF-12"
    if inv == "C06.column_owner_mismatch":
        feat = _feat(case)
        col_table = f["detail"].rsplit(".", 1)[0]
        if sqlfeat.bare(col_table) in feat["rename_old"] and all(sqlfeat.bare(o) in feat["rename_new"] for o in f.get("owners", [])):
            return "KF-12"
    return None


def c18(case, f):
    inv = f["inv"]
    if inv == "C18.column_ids_not_unique":
        feat = _feat(case)
        # two distinct nodes print the same name: derived tables / CTEs sharing an alias in different scopes,
        # or a CASE whose branches hold scalar subqueries named after the select alias (KF-25 shape)
        roots = {d.split(".")[0] for d in f.get("dups", [])}
        if roots and roots <= (feat["same_alias_subqueries"] | feat["case_subquery_aliases"]):
            return "KF-23"
    return None
