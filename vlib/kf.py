"""Known-finding matchers. A matcher decides from the *mechanism* of a discrepancy (features of the input +
shape of the deviation) whether it is an instance of a listed finding - never from a case hash or a random
value. Matchers only take effect for ids present in /verif/known_findings.json (read-only at run time)."""
from . import sqlfeat


def _feat(case):
    return sqlfeat.features(case["sql"], case.get("dialect", "ansi"))


def c06(case, f):
    inv = f["inv"]
    feat = None
    if inv == "C06.path_min_len":
        return "KF-10"
    t = f.get("table")
    if inv in ("C06.source_table_not_read", "C06.table_graph_disconnected", "C06.table_graph_missing_node") and t:
        feat = _feat(case)
        b = sqlfeat.bare(t)
        if b in feat["lateral_view_aliases"] or (b in feat["table_function_aliases"] and t.startswith("<default>.")):
            return "KF-11"
        # KF-39: the columns of a scalar sub-query in a select item come back from a nested analysis as (column, qualifier) and the qualifier
        # is looked up in the *outer* query's alias map: an alias, or the bare name of a schema-qualified table, falls through to Table(qualifier)
        if b in feat["select_subquery_fullname_schemas"] and t.startswith("<default>."):
            return "KF-39"  # (a) schema.table.column inside the sub-query: phantom table named after the schema
        if case.get("dialect") == "non-validating" and (b in feat["select_subquery_tables"] or (b in feat["select_subquery_aliases"] and t.startswith("<default>."))):
            return "KF-39"  # (c) the legacy analyzer does not read an operand sub-query at table level
        # KF-40: the alias of the table an UPDATE writes is not registered: a SET source qualified with it falls through to Table(alias)
        if b in feat["update_first_table_aliases"] and t.startswith("<default>."):
            return "KF-40"
        # KF-16e: the legacy analyzer takes the first part of schema.table.column as the qualifier: a phantom table named after the schema
        if case.get("dialect") == "non-validating" and b in feat["fullname_schemas"]:
            return "KF-16e"
    return None


def c18(case, f):
    inv = f["inv"]
    if inv == "C18.parent_is_not_the_owner" and _feat(case)["same_text_subqueries"]:
        # KF-35: two sub-queries with identical text but different names are equal objects for the export's parent table
        return "KF-35"
    if inv == "C18.column_ids_not_unique":
        feat = _feat(case)
        # two distinct nodes print the same name: derived tables / CTEs sharing an alias in different scopes,
        # or a CASE whose branches hold scalar subqueries named after the select alias (KF-25 shape)
        roots = {d.split(".")[0] for d in f.get("dups", [])}
        if roots and roots <= (feat["same_alias_subqueries"] | feat["case_subquery_aliases"]):
            return "KF-23"
        # KF-23c: a column written to a file path prints as its bare name, so the same column name written to two paths gives two nodes with one id
        if f.get("kinds") and set(f["kinds"]) == {"col"} and all("." not in d for d in f.get("dups", [])) and \
                len(_re.findall(r"(?i)\boverwrite\s+(?:local\s+)?directory\b", case.get("sql", ""))) >= 2:
            return "KF-23c"
        # KF-23b: the legacy analyzer registers a CTE whose body is a set operation of parenthesised branches twice (whole body / first branch)
        if case.get("dialect") == "non-validating" and roots and roots <= (feat["same_alias_subqueries"] | feat["case_subquery_aliases"] | feat["cte_paren_setop_names"]):
            return "KF-23b"
        # KF-23d: the legacy analyzer names a select-list scalar sub-query after the item's alias: the same alias in two set-operation branches
        if case.get("dialect") == "non-validating" and roots and roots <= (feat["same_alias_subqueries"] | feat["case_subquery_aliases"] | feat["cte_paren_setop_names"] | feat["repeated_subquery_item_aliases"]):
            return "KF-23d"
    return None


def _cyto_diff(a, b):
    import collections
    import json

    an = collections.Counter(json.dumps(x, sort_keys=True) for x in a["nodes"])
    bn = collections.Counter(json.dumps(x, sort_keys=True) for x in b["nodes"])
    ae = collections.Counter(tuple(x) for x in a["edges"])
    be = collections.Counter(tuple(x) for x in b["edges"])
    nodes = [json.loads(x) for x in list((an - bn).elements()) + list((bn - an).elements())]
    edges = list((ae - be).elements()) + list((be - ae).elements())
    return nodes, edges


def c11(case, det):
    """hash-seed dependent results: keyed on the input mechanism only (the outcome legitimately varies per process)"""
    fields = set()
    for v in det["fields"].values():
        fields |= set(v)
    a, b = det["a"], det["b"]
    feat = _feat(case)
    # KF-25: the same scalar-subquery text occurs under the select alias (THEN branch) and anonymously (WHEN branch) of one CASE:
    # one SubQuery node (equality is textual) printed under whichever alias the set yields first
    extra_fields = {"column_paths_incl_subquery", "column_paths_no_subquery_columns"}
    if feat["case_subquery_aliases"] and fields <= {"cyto_column", "column_paths"} | extra_fields:
        names = set(feat["case_subquery_aliases"])
        ok = True
        if "cyto_column" in a:
            nodes, edges = _cyto_diff(a["cyto_column"], b["cyto_column"])
            for n in nodes:
                txt = str(n.get("id", "")) + " " + str(n.get("parent", ""))
                if not ("subquery#" in txt or any(txt.startswith(x) or (" " + x) in txt or x + "." in txt for x in names)):
                    ok = False
            for e in edges:
                if not any("subquery#" in x or x.split(".")[0] in names for x in e):
                    ok = False
        for fld in ("column_paths", "column_paths_incl_subquery", "column_paths_no_subquery_columns"):
            if fld in a:
                for p in [x for x in a[fld] if x not in b[fld]] + [x for x in b[fld] if x not in a[fld]]:
                    if not any("subquery#" in c or c.split(".")[0] in names for c in p):
                        ok = False
        if ok:
            return "KF-25"
    # KF-38: legacy analyzer: which node is "the target" for star expansion is picked by set iteration among the written-but-not-read
    # nodes (the real target and any anonymous WHERE sub-query), so a star over a derived table is expanded or not depending on the hash seed
    if case.get("dialect") == "non-validating" and "*" in case["sql"] and (feat["where_has_subquery"] or feat["select_has_subquery"]) and fields <= {"cyto_column", "column_paths"} | extra_fields:
        ok = False
        for fld in ("column_paths", "column_paths_incl_subquery"):
            if fld in a:
                da = [x for x in a[fld] if x not in b[fld]]
                db = [x for x in b[fld] if x not in a[fld]]
                # one side holds the unexpanded star of a derived table (owner printed without schema: 'dq1.*')
                def subq_star(paths):
                    return {c for p in paths for c in p if c.endswith(".*") and c.count(".") == 1}
                if subq_star(da) != subq_star(db):
                    ok = True
        if ok:
            return "KF-38"
    return None


import re as _re

_OP_COMMENT_SEMI = _re.compile(r"[+\-*/<>=|&^%@#!~]/\*[^*]*?;")
_COMMENT_KINDS = {"block", "line", "ins_block", "ins_line"}


def c07(case, diff, o, v):
    kinds = {s["kind"] for s in case.get("spec", [])}
    txt = case.get("rewritten", "")
    # KF-31: sqlparse's lexer does not recognise a block comment that directly follows an operator character
    # ('+/* a;b */'): the ';' inside it splits the statement
    if _OP_COMMENT_SEMI.search(txt) and (diff is None or v.get("n_statements") != o.get("n_statements")):
        return "KF-31"
    if case.get("dialect") != "non-validating" and kinds & _COMMENT_KINDS and diff == ["column_pairs"]:
        # KF-13: a sub-query inside a select item is re-analysed from its raw text by a nested sqlparse run, so comments
        # inside it change the columns found (tokens glued / mis-grouped as under KF-30c)
        # (the nested run is the legacy analyzer: the comment has to be glued to a word character, as under KF-30c)
        if _feat(case)["select_has_subquery"] and _re.search(r"[\w\"'`\]]/\*|\*/[\w\"'`\[]", txt):
            return "KF-13"
    if kinds & {"hash_glued"} and _re.search(r"#[^\s#][^\n]*;", txt) and ((diff is None and v.get("outcome") in ("InvalidSyntaxException", "UnsupportedStatementException")) or (diff is not None and v.get("n_statements") != o.get("n_statements"))):
        # KF-31b: the statement splitter is sqlparse's; a ';' inside a '#x...' comment (no blank after the hash) is a statement end to it
        return "KF-31b"
    if case.get("dialect") != "non-validating" and kinds & {"hash_glued"} and (diff == ["column_pairs"] or (diff is None and v.get("outcome") == "SQLLineageException")):
        # KF-13 once more: sqlparse's lexer knows '# ' (hash and a blank) as a line comment but not '#c'; the dialect's own lexer takes both, so a
        # glued hash comment inside a select-item sub-query reaches the nested legacy run as tokens (phantom column, or 'An Identifier is expected')
        if _feat(case)["select_has_subquery"] and _re.search(r"#[^\s#]", txt):
            return "KF-13"
    if case.get("dialect") != "non-validating" and kinds & {"upper", "swap", "mixed", "lower"} and diff == ["column_pairs"]:
        # KF-13 again: the nested run is the legacy analyzer, whose CAST(... AS type(n)) handling depends on letter case (KF-30b)
        if _feat(case)["select_has_subquery"] and _re.search(r"(?i)\bcast\s*\(", case.get("sql", "")) and _re.search(r"(?i)\bas\s+[a-z_]+\s*\(", case.get("sql", "")):
            return "KF-13"
    if case.get("dialect") == "non-validating" and diff == ["column_pairs"] and "*" in case.get("sql", "") and (_feat(case)["where_has_subquery"] or _feat(case)["select_has_subquery"]):
        # KF-38: which node's star is expanded is picked by set iteration; the anonymous sub-query's hash follows its text, so any rewrite flips the coin
        def subq_star(pairs):
            return {c for p in pairs for c in p if c.endswith(".*") and c.count(".") == 1}
        if subq_star(o.get("column_pairs", [])) != subq_star(v.get("column_pairs", [])):
            return "KF-38"
    if case.get("dialect") == "non-validating":
        # the legacy sqlparse analyzer is layout sensitive in three separate ways
        # KF-30a: anything but one blank between UNION and ALL (also a comment)
        if _re.search(r"(?is)\bunion(?! all\b)(\s|/\*.*?\*/|--[^\n]*\n)+all\b", txt):
            return "KF-30a"
        # KF-30c: a block comment that is the only separator between two tokens (glued to a word character on either side); comments
        # with blanks around them, line comments and comments next to , ( ) leave the result unchanged
        if kinds & _COMMENT_KINDS and _re.search(r"[\w\"'`\]]/\*|\*/[\w\"'`\[]", txt):
            return "KF-30c"
        # ... and a comment inside the INSERT (...) / VALUES (...) lists of a MERGE
        if kinds & _COMMENT_KINDS and _re.search(r"(?is)\bmerge\b.*\b(insert|values)\s*\([^)]*(/\*|--)", txt):
            return "KF-30c"
        if kinds & {"upper", "swap", "mixed", "lower"} and (any(m != "cast" for m in _re.findall(r"(?i)\b(cast)\s*\(", txt + " " + case.get("sql", "")))
                                                           or (_re.search(r"(?i)\bcast\s*\(", txt) and any(m != m.lower() for m in _re.findall(r"(?i)\bas\s+([a-z_]+)\s*\(", txt + " " + case.get("sql", ""))))):
            return "KF-30b"
        if "quote" in kinds:
            # KF-30d: one of the identifiers that got quoted is a word sqlparse's lexer takes for a keyword when it stands unquoted
            import sqlparse
            from sqlparse import tokens as _T

            for name in set(_re.findall(r"[\"`\[]([A-Za-z_][A-Za-z_0-9]*)[\"`\]]", txt)):
                toks = list(sqlparse.parse(name)[0].flatten())
                if toks and toks[0].ttype is not None and (toks[0].ttype in _T.Keyword or toks[0].ttype in _T.Name.Builtin):
                    return "KF-30d"
            # ... or the name of a CTE written without AS: WITH w (SELECT ...) is recognised through sqlparse's function-call grouping,
            # which a quoted name does not get
            if _re.search(r"(?i)(\bwith|,)\s*[\"`\[]\w+[\"`\]]\s*\(\s*select\b", txt):
                return "KF-30d"
    return None
