"""Verdict folding, evidence files, replay files, known-findings registry (read-only at run time)."""
import collections
import hashlib
import json
import os
import sys
import time

from . import env

# VERIF_KF_FILE lets a self-test run against a scratch copy with a reduced list (e.g. to try a repair); registered commands never set it
KF_PATH = os.environ.get("VERIF_KF_FILE") or os.path.join(env.VERIF, "known_findings.json")


def load_kf():
    try:
        with open(KF_PATH) as f:
            d = json.load(f)
    except FileNotFoundError:
        d = {"findings": [], "fixed": []}
    return d


def sha(obj):
    return hashlib.sha1(json.dumps(obj, sort_keys=True, default=str).encode()).hexdigest()[:12]


class Run:
    """One execution of one check. Exit codes: 0 held, 1 violation, 2 inconclusive."""

    def __init__(self, pid, tier, level="exploration", rule=""):
        self.pid = pid
        self.tier = tier
        self.level = level
        self.rule = rule
        self.t0 = time.time()
        self.evaluations = 0
        self.nontrivial = set()
        self.samples = []
        self.violations = []
        self.kf_hits = collections.Counter()
        self.kf_examples = {}
        self.inconclusive = 0
        self.inconclusive_notes = []
        self.counters = collections.Counter()
        self.extra = {}
        self.assumptions = []
        self.exhaustive = None
        self.must_observe = {}  # name -> count; zero at finish => inconclusive
        kf = load_kf()
        self.kf_entries = {e["id"]: e for e in kf.get("findings", []) if pid in e.get("properties", [])}
        self.max_viol_print = 12

    # -- accounting ---------------------------------------------------------
    def case(self, key=None, nontrivial=True, sample=None):
        self.evaluations += 1
        if nontrivial and key is not None:
            self.nontrivial.add(key if isinstance(key, str) else sha(key))
        if sample is not None and len(self.samples) < 6:
            self.samples.append(sample)

    def observe(self, name, n=1):
        self.must_observe[name] = self.must_observe.get(name, 0) + n

    def need(self, name):
        self.must_observe.setdefault(name, 0)

    def inconc(self, note):
        self.inconclusive += 1
        if len(self.inconclusive_notes) < 10:
            self.inconclusive_notes.append(str(note)[:300])

    def pool_status(self, st, payload, case=None):
        """Fold a worker status; returns True when the payload is usable."""
        if st == "ok":
            return True
        if st == "err":
            # harness-side error inside the worker: a broken monitor, not a property verdict
            self.inconc(f"worker error: {str(payload)[-400:]}")
            self.counters["worker_errors"] += 1
            return False
        self.inconc(f"{st}: {json.dumps(case, default=str)[:200] if case is not None else ''}")
        self.counters["worker_" + st] += 1
        return False

    # -- verdicts -----------------------------------------------------------
    def known(self, kfid, what, example=None):
        self.kf_hits[kfid] += 1
        if kfid not in self.kf_examples:
            self.kf_examples[kfid] = {"what": what, "example": example}

    def kf_listed(self, kfid):
        return kfid in self.kf_entries

    def violation(self, case, detail, kind=""):
        """Record a violation; writes the replay file; prints the VIOLATION line."""
        rep = {"property": self.pid, "kind": kind, "case": case, "detail": detail,
               "seed": env.seed(), "tier": self.tier, "repo": env.REPO}
        h = sha({"case": case, "kind": kind})
        path = os.path.join(os.environ.get("VERIF_REPLAY_DIR") or os.path.join(env.VERIF, "replays"), f"{self.pid}-{h}.json")
        os.makedirs(os.path.dirname(path), exist_ok=True)
        if len(self.violations) < 200:
            try:
                with open(path, "w") as f:
                    json.dump(rep, f, indent=1, default=str)
            except OSError:
                pass
        self.violations.append({"kind": kind, "replay": path, "detail": _short(detail)})
        if len(self.violations) <= self.max_viol_print:
            print(f"VIOLATION property={self.pid} replay={path}", flush=True)
            print(f"  kind={kind} detail={_short(detail, 600)}", flush=True)
        return path

    def judge(self, case, kind, detail, kf_id=None, what=None):
        """A discrepancy: known finding if a listed entry claims it, else violation."""
        if kf_id is not None and self.kf_listed(kf_id):
            self.known(kf_id, what or self.kf_entries[kf_id].get("what", kind), _short(case, 300))
            return "known"
        self.violation(case, detail, kind)
        return "violation"

    # -- finish -------------------------------------------------------------
    def finish(self):
        wall = time.time() - self.t0
        status = "held"
        unobserved = [k for k, v in self.must_observe.items() if v == 0]
        if self.violations:
            status = "violated"
        elif unobserved:
            status = "inconclusive"
        elif self.evaluations and self.inconclusive > max(2, 0.02 * self.evaluations):
            status = "inconclusive"
        elif self.evaluations == 0:
            status = "inconclusive"
        for kfid, n in sorted(self.kf_hits.items()):
            ex = self.kf_examples[kfid]
            print(f"KNOWN-FINDING: property={self.pid} id={kfid} {ex['what']} ({n} cases, e.g. {_short(ex['example'], 160)})", flush=True)
        if len(self.violations) > self.max_viol_print:
            print(f"  ... {len(self.violations) - self.max_viol_print} more violations not printed", flush=True)
        cov = {
            "evaluations": int(self.evaluations),
            "distinct_nontrivial": int(len(self.nontrivial)),
            "rule": self.rule,
            "samples": self.samples or ["<none>"],
            "observed": dict(self.must_observe),
            "counters": {k: int(v) for k, v in sorted(self.counters.items())},
            "known_findings_matched": {k: int(v) for k, v in sorted(self.kf_hits.items())},
            "known_findings_unobserved": sorted(set(self.kf_entries) - set(self.kf_hits)),
            "inconclusive": int(self.inconclusive),
            "inconclusive_notes": self.inconclusive_notes,
            "status": status,
            "violations_detail": self.violations[:20],
        }
        if self.exhaustive is not None:
            cov["exhaustive"] = bool(self.exhaustive)
        cov.update(self.extra)
        ev = {
            "property_id": self.pid,
            "tier": self.tier,
            "seed": env.seed(),
            "level": self.level,
            "coverage": cov,
            "assumptions": self.assumptions,
            "wall_s": round(wall, 2),
            "violations": len(self.violations),
        }
        evdir = os.environ.get("VERIF_EVIDENCE_DIR") or os.path.join(env.VERIF, "evidence")
        os.makedirs(evdir, exist_ok=True)
        with open(os.path.join(evdir, f"{self.pid}.json"), "w") as f:
            json.dump(ev, f, indent=1, default=str)
        print(f"{self.pid} [{self.tier}] status={status} evaluations={self.evaluations} nontrivial={len(self.nontrivial)} "
              f"known={sum(self.kf_hits.values())} violations={len(self.violations)} inconclusive={self.inconclusive} wall={wall:.1f}s", flush=True)
        if status == "violated":
            return 1
        if status == "inconclusive":
            print(f"INCONCLUSIVE property={self.pid} unobserved={unobserved} inconclusive_cases={self.inconclusive} notes={self.inconclusive_notes[:3]}", flush=True)
            return 2
        return 0


def _short(x, n=300):
    s = x if isinstance(x, str) else json.dumps(x, default=str)
    return s if len(s) <= n else s[:n] + "..."
