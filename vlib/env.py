"""Paths and interpreter environment shared by master and workers."""
import os
import sys

VERIF = os.path.dirname(os.path.dirname(os.path.abspath(__file__)))
REPO = os.path.abspath(os.environ.get("VERIF_REPO", "/repo"))
PY = os.environ.get("VERIF_PY", "/venv/bin/python")
GUARD = "REATA_SQLLINEAGE_VERIF"


def seed() -> int:
    try:
        return int(os.environ.get("VERIF_SEED", "0"))
    except ValueError:
        return 0


def child_env(hashseed="0", extra=None):
    env = dict(os.environ)
    env["PYTHONPATH"] = REPO + os.pathsep + VERIF
    env["PYTHONHASHSEED"] = str(hashseed)
    env["PYTHONDONTWRITEBYTECODE"] = "1"
    env["VERIF_REPO"] = REPO
    env[GUARD] = "1"
    # never let a user config leak into the system under test
    for k in list(env):
        if k.startswith("SQLLINEAGE_"):
            del env[k]
    if extra:
        env.update({k: str(v) for k, v in extra.items()})
    return env


def use_repo():
    """Make `import sqllineage` resolve to $VERIF_REPO (the working tree), nothing else."""
    if sys.path[0:1] != [REPO]:
        sys.path.insert(0, REPO)
    if VERIF not in sys.path:
        sys.path.append(VERIF)
    sys.dont_write_bytecode = True
