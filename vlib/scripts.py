"""C05 worker op: a script assembled from known pieces is analysed as exactly the sequence of its statements."""
import re
import warnings

from . import env, observe, taps

env.use_repo()

_PIECE_CACHE = {}


def strip_comments(sql, hash_comments=False, nested=False, backslash=True):
    """own lexer: removes -- / # (optional) line comments and /* */ block comments outside quotes; nested: block comments nest (tsql, postgres);
    backslash: a backslash escapes the next character of a single-quoted literal (mysql, bigquery, spark ...; not tsql / postgres)"""
    out = []
    i, n = 0, len(sql)
    while i < n:
        c = sql[i]
        if c in "'\"`":
            j = i + 1
            while j < n:
                if backslash and sql[j] == "\\" and c == "'" and j + 1 < n:
                    j += 2
                    continue
                if sql[j] == c:
                    if j + 1 < n and sql[j + 1] == c:
                        j += 2
                        continue
                    break
                j += 1
            out.append(sql[i:j + 1])
            i = j + 1
        elif sql.startswith("--", i) or (hash_comments and c == "#"):
            j = sql.find("\n", i)
            j = n if j < 0 else j
            out.append(" ")
            i = j
        elif sql.startswith("/*", i):
            if nested:
                depth, j = 1, i + 2
                while j < n and depth:
                    if sql.startswith("/*", j):
                        depth, j = depth + 1, j + 2
                    elif sql.startswith("*/", j):
                        depth, j = depth - 1, j + 2
                    else:
                        j += 1
            else:
                j = sql.find("*/", i + 2)
                j = n if j < 0 else j + 2
            out.append(" ")
            i = j
        else:
            out.append(c)
            i += 1
    return "".join(out)


LEXER = {"tsql": {"nested": True, "backslash": False}, "postgres": {"nested": True, "backslash": False}}


def norm(sql, hash_comments=False, **lex):
    s = strip_comments(sql, hash_comments, **lex)
    s = re.sub(r"\s+", " ", s).strip()
    while s.endswith(";"):
        s = s[:-1].rstrip()
    return s


def _summ(holder):
    cols = set()
    for p in holder.get_column_lineage():
        cols.add((taps.coldesc(p[0]), taps.coldesc(p[-1])))
    tg = holder.table_lineage_graph
    return {"source": sorted(taps.dsdesc(t) for t in holder.source_tables), "target": sorted(taps.dsdesc(t) for t in holder.target_tables),
            "intermediate": sorted(taps.dsdesc(t) for t in holder.intermediate_tables),
            "table_edges": sorted([str(a), str(b)] for a, b in tg.edges), "column_pairs": sorted(list(x) for x in cols)}


def _alone(piece, dialect, cfg):
    key = (piece, dialect, tuple(sorted(cfg.items())))
    if key in _PIECE_CACHE:
        return _PIECE_CACHE[key]
    from sqllineage.config import SQLLineageConfig
    from sqllineage.runner import LineageRunner

    taps.begin()
    res = None
    try:
        with warnings.catch_warnings():
            warnings.simplefilter("ignore")
            if cfg:
                with SQLLineageConfig(**cfg):
                    r = LineageRunner(piece, dialect=dialect)
                    r.source_tables  # the analysis is what the statement tap observes; listing statements need not trigger it
                    stmts = r.statements()
            else:
                r = LineageRunner(piece, dialect=dialect)
                r.source_tables
                stmts = r.statements()
        st = taps.end()
        if len(st["holders"]) == 1 and len(stmts) == 1:
            res = {"holder": st["holders"][0], "statements": stmts}
        else:
            res = {"error": f"piece yields {len(stmts)} statements"}
    except Exception as e:
        taps.end()
        res = {"error": type(e).__name__}
    _PIECE_CACHE[key] = res
    return res


def run_script(arg):
    """arg: pieces[], seps[] (len n+1), dialect, config{}"""
    from sqllineage.core.holders import SQLLineageHolder
    from sqllineage.core.metadata.dummy import DummyMetaDataProvider

    pieces, seps, dialect, cfg = arg["pieces"], arg["seps"], arg["dialect"], arg.get("config") or {}
    hashc = dialect in ("mysql", "mariadb")
    alone = [_alone(p, dialect, cfg) for p in pieces]
    bad = [a["error"] for a in alone if "error" in a]
    if bad:
        out = {"skipped": bad, "skipped_pieces": [p for p, a in zip(pieces, alone) if "error" in a]}
        if arg.get("trap"):
            # a lexer-trap piece that cannot be analysed alone: does the dialect's own parser accept it? (independent oracle)
            from . import errors

            with warnings.catch_warnings():
                warnings.simplefilter("ignore")
                out["pieces_accepted_by_sqlfluff"] = all(errors.sqlfluff_accepts(p, dialect) is True for p, a in zip(pieces, alone) if "error" in a)
        return out
    script = seps[0]
    for p, s in zip(pieces, seps[1:]):
        script += p + s
    case = {"sql": script, "dialect": dialect, "config": cfg, "want": [], "provider": "default"}
    if arg.get("order"):
        case["order"] = arg["order"]
    rec = observe.run_case(case)
    out = {"script": script, "outcome": "ok" if rec["outcome"] == "ok" else rec["outcome"]["exc_type"]}
    if rec["outcome"] != "ok":
        out["message"] = rec["outcome"]["message"]
        if (cfg.get("TSQL_NO_SEMICOLON") or arg.get("trap")) and out["outcome"] == "InvalidSyntaxException":
            # without semicolons the whole batch must be parsable by sqlfluff; ask sqlfluff itself (independent oracle)
            from . import errors

            with warnings.catch_warnings():
                warnings.simplefilter("ignore")
                out["batch_accepted_by_sqlfluff"] = errors.sqlfluff_accepts(script.strip(), dialect)
        return out
    lex = LEXER.get(dialect, {})
    out["statements"] = [norm(s, hashc, **lex) for s in rec["statements"]]
    out["expected_statements"] = [norm(p, hashc, **lex) for p in pieces]
    out["n_analyzed"] = len(rec["per_statement"])
    st = taps.state()
    was = st["active"]
    st["active"] = False
    try:
        comb = SQLLineageHolder.of(DummyMetaDataProvider(), *[a["holder"] for a in alone])
    finally:
        st["active"] = was
    exp = _summ(comb)
    amap = observe._canon_map(list(comb.graph.nodes))
    exp = observe.canon(exp, amap)
    exp["column_pairs"] = sorted(exp["column_pairs"])
    got = {"source": sorted(rec["source"]), "target": sorted(rec["target"]), "intermediate": sorted(rec["intermediate"]),
           "table_edges": sorted(rec["table_edges"]), "column_pairs": sorted(rec["column_pairs"])}
    out["combined"] = exp
    out["script_result"] = got
    return out
