"""Hostile input generation for C10: token-level mutations of corpus statements, cross-over, truncation,
bracket nesting, templating/quoting metacharacters."""
import re

TOKEN = re.compile(r"""\s+|'(?:[^'\\]|\\.|'')*'|"(?:[^"\\]|\\.)*"|`[^`]*`|--[^\n]*|/\*.*?\*/|[A-Za-z_][A-Za-z_0-9$]*|\d+(?:\.\d+)?|<=|>=|<>|!=|\|\||::|.""", re.S)

INSERTS = ["(", ")", ",", ".", ";", "select", "from", "where", "join", "on", "as", "union", "insert", "into", "values", "with", "case", "when",
           "end", "over", "partition", "by", "group", "having", "set", "update", "merge", "using", "matched", "then", "*", "=", "'", '"', "`",
           "[", "]", "{{", "}}", "{%", "%}", "{#", "#}", "$", "${x}", ":name", "%(x)s", "?", "@v", "\\", "null", "1", "''", "x.y.z.w", "lateral", "view",
           "table", "create", "drop", "alter", "rename", "to", "copy", "not", "exists", "in", "--", "/*", "*/", "\x00", "é", "\t"]

META = ["{{", "{{ x }}", "{%", "{% if x %}", "{#", "{# c #}", "}}", "$", "${v}", "$1", ":name", "%(x)s", "%s", "?", "@@v", "\\", "'", '"', "`"]


def toks(sql):
    return TOKEN.findall(sql)


def mutants(sql, rnd, n):
    """n seeded mutants of one statement"""
    t = toks(sql)
    idx = [i for i, x in enumerate(t) if not x.isspace()]
    out = []
    if not idx:
        return out
    for _ in range(n):
        u = list(t)
        k = rnd.random()
        i = rnd.choice(idx)
        if k < 0.22:
            del u[i]
            kind = "delete"
        elif k < 0.36:
            u.insert(i, u[i] + " ")
            kind = "duplicate"
        elif k < 0.50:
            j = rnd.choice(idx)
            u[i], u[j] = u[j], u[i]
            kind = "swap"
        elif k < 0.78:
            u.insert(i, " " + rnd.choice(INSERTS) + " ")
            kind = "insert"
        elif k < 0.88:
            u[i] = rnd.choice(INSERTS)
            kind = "replace"
        else:
            # two mutations
            del u[i]
            j = rnd.choice(idx)
            if j < len(u):
                u.insert(j, " " + rnd.choice(INSERTS) + " ")
            kind = "delete+insert"
        out.append((kind, "".join(u)))
    return out


def truncations(sql, step=1):
    t = toks(sql)
    idx = [i for i, x in enumerate(t) if not x.isspace()]
    return [("truncate", "".join(t[:i])) for i in idx[1::step]]


def crossover(a, b, rnd):
    ta, tb = toks(a), toks(b)
    i, j = rnd.randrange(len(ta) + 1), rnd.randrange(len(tb) + 1)
    return ("crossover", "".join(ta[:i]) + " " + "".join(tb[j:]))


def nest(sql, depth):
    """wrap the first FROM item / the whole query in `depth` brackets"""
    return [("nest_query", "select * from " + "(" * depth + sql.rstrip("; \n") + ")" * depth),
            ("nest_unbalanced", "select * from " + "(" * depth + sql.rstrip("; \n") + ")" * (depth - 1)),
            ("nest_expr", "select " + "(" * depth + "a" + ")" * depth + " from t"),
            ("nest_insert", "insert into t " + "(" * depth + "select a from b" + ")" * depth)]


def metachar(sql, rnd, n):
    t = toks(sql)
    out = []
    lits = [i for i, x in enumerate(t) if x[:1] == "'" and len(x) >= 2]
    idx = [i for i, x in enumerate(t) if not x.isspace()]
    for _ in range(n):
        u = list(t)
        m = rnd.choice(META)
        if lits and rnd.random() < 0.4:
            i = rnd.choice(lits)
            u[i] = u[i][:1] + m.replace("'", "") + u[i][1:]
            kind = "meta_in_literal"
        elif idx:
            i = rnd.choice(idx)
            u.insert(i, " " + m + " ")
            kind = "meta_outside"
        else:
            continue
        out.append((kind, "".join(u)))
    return out
