"""Core-grammar SQL generator whose AST carries its own meaning (reference model for C01/C02/C04/C08/C09/C13/C14/C16).

Nothing here imports the system under test.  Every node computes by structural recursion
  reads()    base tables / paths read at any depth
  outputs()  ordered (name, origins) of a query; origins are base columns, unresolved columns with their
             candidate owners, wildcards, or sub-query rooted columns
and collects feature tags used for coverage accounting and known-finding classification.
Identifiers come from pools that are keywords in no installed dialect."""
import itertools
import random
import zlib


def shash(*a):
    return zlib.crc32(repr(a).encode())

DEFAULT = "<default>"


# --------------------------------------------------------------------------- names
class Names:
    def __init__(self, rnd=None):
        self.rnd = rnd or random.Random(0)
        self.n = {"t": 0, "a": 0, "d": 0, "w": 0, "c": 0, "cu": 0, "o": 0}

    def table(self):
        self.n["t"] += 1
        return f"tb_k{self.n['t']}"

    def alias(self):
        self.n["a"] += 1
        return f"x{self.n['a']}"

    def dalias(self):
        self.n["d"] += 1
        return f"dq{self.n['d']}"

    def cte(self):
        self.n["w"] += 1
        return f"wq{self.n['w']}"

    def col(self):
        self.n["c"] += 1
        return f"c_{self.n['c']}"

    def ucol(self):
        self.n["cu"] += 1
        return f"cu_{self.n['cu']}"

    def out(self):
        self.n["o"] += 1
        return f"o_{self.n['o']}"


# --------------------------------------------------------------------------- origins
def O_col(table, name):
    return ("col", table, name)


def O_unres(cands, name):
    return ("unres", tuple(sorted(cands)), name)


def O_subq(alias, name):
    return ("subq", alias, name)


def desc(o):
    """origin -> the tool's printed identity (taps.coldesc format)"""
    k = o[0]
    if k == "col":
        return f"{o[1]}.{o[2]}"
    if k == "unres":
        if len(o[1]) == 1:
            return f"{o[1][0]}.{o[2]}"
        return "<" + "|".join(o[1]) + ">." + o[2]
    if k == "subq":
        return f"{o[1]}.{o[2]}"
    raise ValueError(o)


# --------------------------------------------------------------------------- relations
class Base:
    kind = "base"

    def __init__(self, name, schema=None, alias=None, use_as=False):
        self.name, self.schema, self.alias, self.use_as = name, schema, alias, use_as

    def full(self, default_schema=None):
        return f"{self.schema or default_schema or DEFAULT}.{self.name}"

    def key(self):
        return self.alias or self.name

    def render(self, r):
        s = r.tname(self)
        if self.alias:
            s += (" as " if self.use_as else " ") + r.ident(self.alias)
        return s

    def tags(self):
        t = set()
        if self.schema:
            t.add("name.schema_qualified")
        if self.alias:
            t.add("alias.table_as" if self.use_as else "alias.table")
        return t


class Derived:
    kind = "derived"

    def __init__(self, query, alias, use_as=False):
        self.query, self.alias, self.use_as = query, alias, use_as

    def key(self):
        return self.alias

    def ident(self):
        return self.alias

    def render(self, r):
        return "(" + self.query.render(r) + ")" + (" as " if self.use_as else " ") + r.ident(self.alias)

    def tags(self):
        return {"from.derived_table"} | self.query.tags()


class CteRef:
    kind = "cte"

    def __init__(self, name, alias=None, use_as=False):
        self.name, self.alias, self.use_as = name, alias, use_as

    def key(self):
        return self.alias or self.name

    def ident(self):
        """printed identity: every reference to a CTE is the CTE's own node, whatever alias it carries"""
        return self.name

    def render(self, r):
        s = r.ident(self.name)
        if self.alias:
            s += (" as " if self.use_as else " ") + r.ident(self.alias)
        return s

    def tags(self):
        return {"from.cte_ref_aliased" if self.alias else "from.cte_ref"}


class Nested:
    """parenthesised join group used as the right-hand side of a join: a JOIN (b JOIN c ON ...) ON ...; its relations belong to the enclosing scope"""
    kind = "nested"

    def __init__(self, group):
        self.group = group

    def key(self):
        return self.group.first.key()

    def render(self, r):
        return "(" + self.group.render(r) + ")"

    def tags(self):
        t = {"join.parenthesised_group"}
        if getattr(self.group.first, "alias", None):
            t.add("join.parenthesised_group_first_aliased")
        for rel in self.group.rels():
            t |= rel.tags()
        for jt, rel, cond in self.group.joins:
            t.add("join." + jt.replace(" ", "_"))
            t.add("join.cond_" + cond)
        return t


# --------------------------------------------------------------------------- expressions
class E:
    """expression tree: kind in col|lit|arith|func|case|cast|window|coalesce|scalar"""

    def __init__(self, kind, *kids, q=None, name=None, query=None, fname=None):
        self.kind, self.kids, self.q, self.name, self.query, self.fname = kind, list(kids), q, name, query, fname

    def cols(self):
        if self.kind == "col":
            return [self]
        out = []
        for k in self.kids:
            out += k.cols()
        return out

    def subqueries(self, risky_only=False):
        """risky_only leaves out the THEN operands of a multi-branch CASE that is the whole (aliased) select item: those the tool does find"""
        out = [self.query] if self.kind == "scalar" and not (risky_only and getattr(self, "then_operand", False)) else []
        for k in self.kids:
            out += k.subqueries(risky_only)
        return out

    def sourceless(self):
        """no column of any table feeds this expression: a literal, or an expression over literals and scalar sub-queries that select literals"""
        if self.cols():
            return False
        for q in self.subqueries():
            if not isinstance(q, Select) or any(it.is_star or not it.expr.sourceless() for it in q.items):
                return False
        return True

    def render(self, r):
        k = self.kind
        if k == "case_multi":
            arms = " ".join(f"when {self.kids[i].render(r)} > {i} then {self.kids[i + 1].render(r)}" for i in range(0, len(self.kids), 2))
            return f"case {arms} else 0 end"
        if k == "col":
            qf = getattr(self, "qfull", None)
            if qf and self.q:
                return ".".join(r.ident(x) for x in qf.split(".")) + "." + r.ident(self.name)  # schema.table.column
            return (r.ident(self.q) + "." if self.q else "") + r.ident(self.name)
        if k == "lit":
            return self.name
        if k == "arith":
            return "(" + f" {self.fname or '+'} ".join(x.render(r) for x in self.kids) + ")"
        if k == "func":
            return f"{self.fname}(" + ", ".join(x.render(r) for x in self.kids) + ")"
        if k == "coalesce":
            return "coalesce(" + ", ".join(x.render(r) for x in self.kids) + ")"
        if k == "case":
            return f"case when {self.kids[0].render(r)} > 0 then {self.kids[1].render(r)} else {self.kids[2].render(r)} end"
        if k == "cast":
            return f"cast({self.kids[0].render(r)} as {self.fname or 'int'})"
        if k == "window":
            s = f"{self.fname or 'sum'}({self.kids[0].render(r)}) over (partition by {self.kids[1].render(r)}"
            if len(self.kids) > 2:
                s += f" order by {self.kids[2].render(r)}"
            return s + ")"
        if k == "scalar":
            return "(" + self.query.render(r) + ")"
        if k == "paren":
            return "(" + self.kids[0].render(r) + ")"
        if k == "tmpl":
            # a dialect-specific expression form given as text with {0} {1} ... holes for its operands: it depends on exactly its operands' columns
            return self.fname.format(*[x.render(r) for x in self.kids])
        raise ValueError(k)

    def tags(self):
        t = {"expr." + self.kind} if self.kind not in ("col", "lit") else set()
        if self.kind == "col":
            t.add("col.qualified" if self.q else "col.unqualified")
            if getattr(self, "outer", False):
                t.add("col.correlated")
            if self.q and getattr(self, "qfull", None):
                t.add("col.qualified_by_full_name")
        if self.kind == "scalar":
            t |= {"select.scalar_subquery"} | self.query.tags()
        for k in self.kids:
            t |= k.tags()
        return t


def col(name, q=None):
    return E("col", q=q, name=name)


def lit(v="1"):
    return E("lit", name=str(v))


class Item:
    def __init__(self, expr, alias=None, star_q=None, is_star=False):
        self.expr, self.alias, self.star_q, self.is_star = expr, alias, star_q, is_star

    def render(self, r):
        if self.is_star:
            return (r.ident(self.star_q) + "." if self.star_q else "") + "*"
        s = self.expr.render(r)
        if self.alias:
            s += " as " + r.ident(self.alias)
        return s

    def out_name(self):
        if self.is_star:
            return "*"
        if self.alias:
            return self.alias
        if self.expr.kind == "col":
            return self.expr.name
        return None  # un-aliased expression: display name follows the text

    def tags(self):
        if self.is_star:
            return {"select.star_qualified" if self.star_q else "select.star"}
        t = self.expr.tags()
        t.add("item.aliased" if self.alias else "item.unaliased")
        if self.expr.kind == "lit":
            t.add("item.literal")
        return t


# --------------------------------------------------------------------------- predicates
class P:
    """kind in cmp|in|exists|scalar|and|or ; cmp compares a column with a literal"""

    def __init__(self, kind, *kids, colref=None, query=None):
        self.kind, self.kids, self.colref, self.query = kind, list(kids), colref, query

    def subqueries(self):
        out = [self.query] if self.query is not None else []
        for k in self.kids:
            out += k.subqueries()
        return out

    def render(self, r):
        k = self.kind
        if k == "cmp":
            return f"{self.colref.render(r)} > 1"
        if k == "in":
            return f"{self.colref.render(r)} in ({self.query.render(r)})"
        if k == "exists":
            return f"exists ({self.query.render(r)})"
        if k == "scalar":
            return f"{self.colref.render(r)} = ({self.query.render(r)})"
        if k in ("and", "or"):
            return "(" + f" {k} ".join(x.render(r) for x in self.kids) + ")" if len(self.kids) > 1 else self.kids[0].render(r)
        raise ValueError(k)

    def tags(self, where="where"):
        t = set()
        if self.query is not None:
            t |= {f"{where}.subquery_{self.kind}"} | self.query.tags()
        if self.kind in ("and", "or"):
            t.add(f"{where}.{self.kind}")
            if any(x.query is not None or x.subqueries() for x in self.kids):
                t.add(f"{where}.subquery_under_{self.kind}")
        for k in self.kids:
            t |= k.tags(where)
        return t


# --------------------------------------------------------------------------- queries
class Group:
    """one comma-separated FROM group: first relation plus explicit joins"""

    def __init__(self, first, joins=()):
        self.first, self.joins = first, list(joins)  # joins: (jtype, rel, cond) cond in on|using|none

    def rels(self):
        # the first relation may itself be a parenthesised join group: FROM (a JOIN b ON ...) [JOIN c ...]
        out = self.first.group.rels() if self.first.kind == "nested" else [self.first]
        for j in self.joins:
            out += j[1].group.rels() if j[1].kind == "nested" else [j[1]]
        return out

    def render(self, r):
        s = self.first.render(r)
        prev = self.first
        for jt, rel, cond in self.joins:
            s += f" {jt} join {rel.render(r)}"
            if cond == "on":
                s += f" on {r.ident(prev.key())}.{r.ident('k_1')} = {r.ident(rel.key())}.{r.ident('k_1')}"
            elif cond == "using":
                s += f" using ({r.ident('k_1')})"
            prev = rel
        return s


class Select:
    def __init__(self, items, groups, where=None, having=None, group_by=None, distinct=False):
        self.items, self.groups, self.where, self.having, self.group_by, self.distinct = items, groups, where, having, group_by, distinct

    def rels(self):
        out = []
        for g in self.groups:
            out += g.rels()
        return out

    def render(self, r, into=None):
        s = "select " + ("distinct " if self.distinct else "") + ", ".join(i.render(r) for i in self.items)
        if into:
            s += " into " + into
        if self.groups:
            s += " from " + ", ".join(g.render(r) for g in self.groups)
        if self.where is not None:
            s += " where " + self.where.render(r)
        if self.group_by:
            s += " group by " + ", ".join(c.render(r) for c in self.group_by)
        if self.having is not None:
            s += " having " + self.having.render(r)
        return s

    def subqueries(self):
        out = []
        for rel in self.rels():
            if rel.kind == "derived":
                out.append(rel.query)
        for it in self.items:
            if not it.is_star:
                out += it.expr.subqueries()
        for p in (self.where, self.having):
            if p is not None:
                out += p.subqueries()
        return out

    def reads(self, ds=None):
        t = set()
        for rel in self.rels():
            if rel.kind == "base":
                t.add(rel.full(ds))
        for q in self.subqueries():
            t |= q.reads(ds)
        return t

    def tags(self):
        t = set()
        rels = self.rels()
        for rel in rels:
            t |= rel.tags()
        if len(self.groups) > 1:
            t.add("from.comma_join")
            if any(g.joins for g in self.groups):
                t.add("from.mixed_comma_join")
        for g in self.groups:
            if g.first.kind == "nested":
                t |= g.first.tags() | {"from.item_wholly_parenthesised" if not g.joins else "from.first_relation_parenthesised_group"}
            for jt, rel, cond in g.joins:
                t.add("join." + jt.replace(" ", "_"))
                t.add("join.cond_" + cond)
                if rel.kind == "derived":
                    t.add("join.derived_table")
                if rel.kind == "nested":
                    t |= rel.tags()
            if g.joins and g.first.kind == "derived":
                t.add("join.derived_table")
        # KF-24 shape: the FROM clause has an explicit JOIN and one of its derived tables contains a JOIN at any depth:
        # the tool collects join clauses recursively, so the inner join's relations leak into this scope
        if any(g.joins for g in self.groups):
            for rel in rels:
                if rel.kind == "derived" and _has_join_inside(rel.query):
                    t.add("join.derived_with_inner_join")
        names = [rel.name for rel in rels if rel.kind == "base"]
        if len(names) != len(set(names)):
            t.add("from.same_bare_name_twice")
        for it in self.items:
            t |= it.tags()
        if self.where is not None:
            t |= self.where.tags("where")
        if self.having is not None:
            t |= self.having.tags("having")
        if self.group_by:
            t.add("select.group_by")
        if len(rels) > 1 and any((not it.is_star) and any(c.q is None for c in it.expr.cols()) for it in self.items):
            t.add("col.unqualified_in_multi_scope")
        return t

    # ---- column semantics
    def _resolve(self, c, env, ds, notes):
        """origins of one column reference in this select's scope"""
        rels = self.rels()
        if getattr(c, "outer", False) and not getattr(c, "_in_outer_scope", False):
            return set()  # bound by the enclosing query, which resolves it (see outputs)
        if c.q is not None:
            match = [rel for rel in rels if rel.key() == c.q]
            if not match:
                notes.add("unbound_qualifier")
                return set()
            return _rel_col(match[0], c.name, env, ds, notes)
        if len(rels) == 1:
            return _rel_col(rels[0], c.name, env, ds, notes)
        if not rels:
            return set()
        # several relations in scope: relations that define the name themselves disambiguate; else unresolved
        definers = [rel for rel in rels if rel.kind != "base" and c.name in _rel_names(rel, env)]
        if definers:
            out = set()
            for rel in definers:
                out |= _rel_col(rel, c.name, env, ds, notes)
            return out
        cands = [rel.full(ds) if rel.kind == "base" else rel.ident() for rel in rels]
        return {O_unres(set(cands), c.name)}

    def outputs(self, env=None, ds=None, notes=None):
        """[(name, origins, is_literal_only)]"""
        env = env or {}
        notes = notes if notes is not None else set()
        out = []
        rels = self.rels()
        for it in self.items:
            if it.is_star:
                targets = [rel for rel in rels if it.star_q is None or rel.key() == it.star_q]
                for rel in targets:
                    if rel.kind == "base":
                        out.append(("*", {O_col(rel.full(ds), "*")}, False))
                    else:
                        for name, orig, lit_only in _rel_outputs(rel, env, ds, notes):
                            out.append((name, set(orig) if orig else {O_subq(rel.ident(), name)}, False))
                continue
            orig = set()
            for c in it.expr.cols():
                orig |= self._resolve(c, env, ds, notes)
            for q in it.expr.subqueries():
                for _, o2, _l in q.outputs(env, ds, notes):
                    orig |= o2
                # correlated references in the sub-query's select list are columns of this scope
                for it2 in (q.items if isinstance(q, Select) else []):
                    for c in ([] if it2.is_star else it2.expr.cols()):
                        if getattr(c, "outer", False):
                            c._in_outer_scope = True
                            try:
                                orig |= self._resolve(c, env, ds, notes)
                            finally:
                                c._in_outer_scope = False
            out.append((it.out_name(), orig, not it.expr.cols() and not it.expr.subqueries()))
        return out


def _has_join_inside(q):
    if isinstance(q, Select) and any(g.joins for g in q.groups):
        return True
    if isinstance(q, SetOp):
        return any(_has_join_inside(b) for b in q.branches)
    if isinstance(q, With):
        return _has_join_inside(q.body) or any(_has_join_inside(c) for _, c in q.ctes)
    return any(_has_join_inside(s) for s in q.subqueries())


def _has_star(q):
    if isinstance(q, Select):
        return any(i.is_star for i in q.items)
    if isinstance(q, SetOp):
        return any(_has_star(b) for b in q.branches)
    if isinstance(q, With):
        return _has_star(q.body)
    return False


def _selects(q):
    """the SELECTs a query consists of at its own level (set-operation branches, WITH body), not its sub-queries"""
    if isinstance(q, Select):
        return [q]
    if isinstance(q, SetOp):
        return [s for b in q.branches for s in _selects(b)]
    if isinstance(q, With):
        return _selects(q.body)
    return []


def _all_selects(q):
    """every SELECT at any depth below q"""
    out = []
    for s in _selects(q):
        out.append(s)
        for sq in s.subqueries():
            out += _all_selects(sq)
        for rel in s.rels():
            if rel.kind == "derived":
                out += _all_selects(rel.query)
    return out


def _rel_outputs(rel, env, ds, notes):
    if rel.kind == "derived":
        return rel.query.outputs(env, ds, notes)
    if rel.kind == "cte":
        if rel.name not in env:
            # a CTE referenced inside its own body (recursive): not modelled at column level
            if notes is not None:
                notes.add("recursive_cte_reference")
            return []
        return env[rel.name]
    raise ValueError(rel.kind)


def _rel_names(rel, env):
    if rel.kind == "derived":
        q = rel.query
        sel = q.branches[0] if isinstance(q, SetOp) else q
        return [it.out_name() for it in sel.items]
    if rel.kind == "cte":
        return [n for n, _, _ in env[rel.name]]
    return []


def _rel_col(rel, name, env, ds, notes):
    if rel.kind == "base":
        return {O_col(rel.full(ds), name)}
    for n, orig, lit_only in _rel_outputs(rel, env, ds, notes):
        if n == name:
            if orig:
                return set(orig)
            return {O_subq(rel.ident(), name)}  # literal-defined sub-query column: sub-query rooted pair (tolerated)
    notes.add("subquery_column_not_defined_by_name")
    return {O_subq(rel.ident(), name)}


class SetOp:
    def __init__(self, op, branches, paren=False):
        self.op, self.branches, self.paren = op, branches, paren

    def render(self, r):
        parts = [("(" + b.render(r) + ")") if self.paren else b.render(r) for b in self.branches]
        return f" {self.op} ".join(parts)

    def reads(self, ds=None):
        t = set()
        for b in self.branches:
            t |= b.reads(ds)
        return t

    def subqueries(self):
        out = []
        for b in self.branches:
            out += b.subqueries()
        return out

    def rels(self):
        return []

    def tags(self):
        t = {"setop." + self.op.replace(" ", "_"), f"setop.arity_{len(self.branches)}"}
        if self.paren:
            t.add("setop.parenthesised")
        for i, b in enumerate(self.branches):
            t |= b.tags()
            if i == 0 and any((not it.is_star) and (it.expr.kind == "lit" or it.expr.sourceless()) for it in b.items):
                t.add("setop.first_branch_literal")
            if i > 0 and any((not it.is_star) and it.expr.kind == "lit" for it in b.items):
                t.add("setop.later_branch_literal")
        return t

    def outputs(self, env=None, ds=None, notes=None):
        notes = notes if notes is not None else set()
        outs = [b.outputs(env, ds, notes) for b in self.branches]
        first = outs[0]
        res = []
        for i, (name, orig, lit_only) in enumerate(first):
            o = set(orig)
            lo = lit_only
            for other in outs[1:]:
                if i < len(other):
                    o |= other[i][1]
                    lo = lo and other[i][2]
            res.append((name, o, lo))
        return res


class With:
    """WITH w1 as (...), w2 as (...) <body>"""

    def __init__(self, ctes, body, recursive=False):
        self.ctes, self.body, self.recursive = ctes, body, recursive  # ctes: [(name, query)]

    def render(self, r):
        return ("with recursive " if getattr(self, "recursive", False) else "with ") + ", ".join(f"{r.ident(n)} as ({q.render(r)})" for n, q in self.ctes) + " " + self.body.render(r)

    def env(self, ds=None, notes=None, env=None):
        env = dict(env or {})
        for n, q in self.ctes:
            if any(rel.kind == "cte" and rel.name == n for s in _selects(q) for rel in s.rels()):
                # a CTE that references itself: its columns are what its branches put there - least fixed point, two rounds suffice for
                # the generated shapes (anchor branch + one recursive branch)
                env[n] = []
                for _ in range(3):
                    env[n] = q.outputs(env, ds, set())
                env[n] = q.outputs(env, ds, notes)
            else:
                env[n] = q.outputs(env, ds, notes)
        return env

    def reads(self, ds=None):
        t = self.body.reads(ds)
        for _, q in self.ctes:
            t |= q.reads(ds)
        return t

    def tags(self):
        t = {"with.cte", f"with.n_{len(self.ctes)}"} | self.body.tags()
        for _, q in self.ctes:
            t |= q.tags()
        if len(self.ctes) > 1:
            t.add("with.chained")
        return t

    def outputs(self, env=None, ds=None, notes=None):
        return self.body.outputs(self.env(ds, notes, env), ds, notes)

    def subqueries(self):
        return [q for _, q in self.ctes] + self.body.subqueries()

    def rels(self):
        return []


# --------------------------------------------------------------------------- statements
class Stmt:
    """kind: insert | insert_cols | insert_values | ctas | create_view | select_into | update | update_from | merge |
    copy | create_like | bare | delete | delete_sub | truncate | use | drop | rename | set"""

    def __init__(self, kind, target=None, query=None, cols=None, extra=None):
        self.kind, self.target, self.query, self.cols, self.extra = kind, target, query, cols, extra or {}

    NO_LINEAGE = ("delete", "delete_sub", "truncate", "use", "set", "show")

    def render(self, r):
        k, t, q = self.kind, self.target, self.query
        tn = r.tname(t) if t is not None else None
        if k == "insert":
            return f"insert into {tn} {q.render(r)}"
        if k == "insert_cols":
            return f"insert into {tn} (" + ", ".join(r.ident(c) for c in self.cols) + f") {q.render(r)}"
        if k == "insert_values":
            return f"insert into {tn} values (1, 'a')"
        if k == "ctas":
            return f"create table {tn} as {q.render(r)}"
        if k == "create_view":
            cl = (" (" + ", ".join(r.ident(c) for c in self.cols) + ")") if self.cols else ""
            return f"create view {tn}{cl} as {q.render(r)}"
        if k == "select_into":
            return q.render(r, into=tn)
        if k == "bare":
            return q.render(r)
        if k == "update":
            e = self.extra
            if e.get("alias_target"):
                # T-SQL idiom: the statement names its target by the alias the FROM clause gives it (UPDATE x SET ... FROM tab x, src s)
                al = r.ident(e["alias_target"])
                s = f"update {al} set " + ", ".join(f"{r.ident(a)} = {b.render(r)}" for a, b in e["set"])
                s += " from " + ", ".join([f"{tn} {al}"] + [g.render(r) for g in e.get("from") or []])
            else:
                s = f"update {tn} set " + ", ".join(f"{r.ident(a)} = {b.render(r)}" for a, b in e["set"])
                if e.get("from"):
                    s += " from " + ", ".join(g.render(r) for g in e["from"])
            if e.get("where") is not None:
                s += " where " + e["where"].render(r)
            return s
        if k == "merge":
            e = self.extra
            src = e["source"].render(r)
            sk = e["source"].key()
            tal = getattr(t, "alias", None)
            tq = r.ident(tal) if tal else tn
            s = f"merge into {tn}" + ((" as " if getattr(t, "use_as", False) else " ") + r.ident(tal) if tal else "") + f" using {src} on {tq}.{r.ident('k_1')} = {r.ident(sk)}.{r.ident('k_1')}"
            if e.get("update") or e.get("self"):
                # 'self' assignments read the matched target row itself: a = <target alias>.b
                s += " when matched then update set " + ", ".join([f"{r.ident(a)} = {r.ident(sk)}.{r.ident(b)}" for a, b in e.get("update") or []] + [f"{r.ident(a)} = {x.render(r)}" for a, x in e.get("self") or []])
            if e.get("insert"):
                s += " when not matched then insert (" + ", ".join(r.ident(a) for a, _ in e["insert"]) + ") values (" + ", ".join(f"{r.ident(sk)}.{r.ident(b)}" for _, b in e["insert"]) + ")"
            return s
        if k == "copy":
            return f"copy {tn} from '{self.extra['path']}'"
        if k == "create_like":
            return f"create table {tn} like {r.tname(self.extra['like'])}"
        if k == "delete":
            return f"delete from {tn} where {r.ident('k_1')} > 1"
        if k == "delete_sub":
            return f"delete from {tn} where {r.ident('k_1')} in ({q.render(r)})"
        if k == "truncate":
            return f"truncate table {tn}"
        if k == "use":
            return f"use {r.ident(t.name)}"
        if k == "set":
            return "set x = 1"
        if k == "drop":
            return f"drop table {tn}"
        if k == "rename":
            return f"alter table {tn} rename to {r.tname(self.extra['to'])}"
        raise ValueError(k)

    # ---- table level meaning
    def reads(self, ds=None):
        k = self.kind
        if k in self.NO_LINEAGE or k in ("drop", "rename", "insert_values"):
            return set()
        if k == "copy":
            return {"path:" + self.extra["path"]}
        if k == "create_like":
            return {self.extra["like"].full(ds)}
        if k == "update":
            t = set()
            for g in self.extra.get("from") or []:
                for rel in g.rels():
                    if rel.kind == "base":
                        t.add(rel.full(ds))
                    elif rel.kind == "derived":
                        t |= rel.query.reads(ds)
            if self.extra.get("where") is not None:
                for q in self.extra["where"].subqueries():
                    t |= q.reads(ds)
            for _, e in self.extra["set"]:
                for q in e.subqueries():
                    t |= q.reads(ds)
            return t
        if k == "merge":
            s = self.extra["source"]
            return {s.full(ds)} if s.kind == "base" else s.query.reads(ds)
        return self.query.reads(ds)

    def writes(self, ds=None):
        if self.kind in self.NO_LINEAGE or self.kind in ("bare", "drop", "rename"):
            return set()
        return {self.target.full(ds)}

    def tags(self):
        t = {"stmt." + self.kind}
        if self.query is not None:
            t |= self.query.tags()
        if self.target is not None and self.target.schema:
            t.add("name.schema_qualified")
        if self.kind == "update":
            e = self.extra
            if e.get("alias_target"):
                t.add("update.alias_target")
            if e.get("from"):
                t.add("update.from")
                for g in e["from"]:
                    for rel in g.rels():
                        t |= rel.tags()
                    if g.joins:
                        t.add("update.from_join")
                if len(e["from"]) > 1:
                    t.add("update.from_comma")
            if e.get("where") is not None:
                t |= {x.replace("where.", "update.where_") for x in e["where"].tags("where")}
            for _, ex in e["set"]:
                if ex.subqueries():
                    t.add("update.set_subquery")
                    for q in ex.subqueries():
                        t |= q.tags()
        if self.kind == "merge":
            if self.extra.get("self"):
                t.add("merge.self_assignment")
            t.add("merge.source_" + self.extra["source"].kind)
            t |= self.extra["source"].tags()
        return t

    # ---- column level meaning: set of (origin, target column name)
    def column_pairs(self, ds=None, notes=None):
        notes = notes if notes is not None else set()
        k = self.kind
        tgt = self.target.full(ds) if self.target is not None else None
        pairs = set()
        if k in ("insert", "insert_cols", "ctas", "create_view", "select_into"):
            outs = self.query.outputs(None, ds, notes)
            names = [n for n, _, _ in outs]
            if self.cols:
                if len(self.cols) == len(outs):
                    names = list(self.cols)
                else:
                    notes.add("column_list_length_mismatch")
            for (n, orig, _l), name in zip(outs, names):
                if name is None:
                    notes.add("unaliased_expression_name")
                    continue
                for o in orig:
                    pairs.add((o, name if o[0] != "col" or o[2] != "*" or self.cols else "*"))
            return tgt, pairs
        if k == "update":
            scope_rels = [self.target] + [rel for g in (self.extra.get("from") or []) for rel in g.rels()]
            for a, e in self.extra["set"]:
                if e.kind != "col":
                    continue  # the tool traces plain column = column assignments only
                match = [rel for rel in scope_rels if rel.key() == e.q] if e.q else []
                if e.q and match:
                    for o in _rel_col(match[0], e.name, {}, ds, notes):
                        pairs.add((o, a))
                else:
                    notes.add("update_unqualified_source")
            return tgt, pairs
        if k == "merge":
            s = self.extra["source"]
            if self.extra.get("self") and not self.extra.get("self_model"):
                notes.add("merge_reads_its_target_row")  # the tool attributes such an assignment to the source (KF-44): outside the model
            for a, x in (self.extra.get("self") or []) if self.extra.get("self_model") else []:
                for o in _rel_col(self.target, x.name, {}, ds, notes):
                    pairs.add((o, a))  # a = <target>.b depends on the target's own column
            for a, b in (self.extra.get("update") or []) + (self.extra.get("insert") or []):
                for o in _rel_col(s, b, {}, ds, notes):
                    pairs.add((o, a))
            return tgt, pairs
        return tgt, pairs


# --------------------------------------------------------------------------- rendering
class Renderer:
    def __init__(self, dialect="ansi", upper_kw=False, default_schema=None, qualify_default=False):
        self.dialect, self.upper_kw, self.default_schema, self.qualify_default = dialect, upper_kw, default_schema, qualify_default

    def ident(self, s):
        return s

    def tname(self, t):
        if t.schema:
            return f"{self.ident(t.schema)}.{self.ident(t.name)}"
        if self.qualify_default and self.default_schema:
            return f"{self.ident(self.default_schema)}.{self.ident(t.name)}"
        return self.ident(t.name)


def render(stmt, dialect="ansi", **kw):
    return stmt.render(Renderer(dialect, **kw))


# --------------------------------------------------------------------------- expected record
def expected(stmt, ds=None):
    notes = set()
    reads, writes = stmt.reads(ds), stmt.writes(ds)
    tgt, pairs = stmt.column_pairs(ds, notes)
    col_pairs = sorted({(desc(o), f"{tgt}.{n}") for o, n in pairs}) if tgt else []
    # KF-05 scope: tables read by the later branches of a set operation whose first branch holds a literal item
    kf05 = set()
    for q in walk(stmt):
        if isinstance(q, SetOp) and q.branches and isinstance(q.branches[0], Select) and \
                any((not it.is_star) and (it.expr.kind == "lit" or it.expr.sourceless()) for it in q.branches[0].items):
            for b in q.branches[1:]:
                kf05 |= b.reads(ds)
                if '"cte"' in repr([rel.kind for s in _all_selects(b) for rel in s.rels()]).replace("'", '"'):
                    kf05 |= set(reads)  # a later branch goes through CTE references: their origins can be any table of the statement
    return {"read": sorted(reads), "write": sorted(writes), "column_pairs": [list(p) for p in col_pairs],
            "pairs_raw": sorted((o, n) for o, n in pairs), "notes": sorted(notes), "tags": sorted(stmt.tags()), "kf05_tables": sorted(kf05)}


# --------------------------------------------------------------------------- generators
JOIN_TYPES = ["inner", "left", "right", "full", "cross", "natural", "left outer"]


class Gen:
    """seeded random + enumerated construction of statements"""

    def __init__(self, rnd, schemas=("sa", "sb"), qualify_p=0.3, alias_p=0.5, scalar_p=0.0):
        self.rnd, self.schemas, self.qualify_p, self.alias_p = rnd, schemas, qualify_p, alias_p
        self.scalar_p = scalar_p  # probability that an operand of a select-item expression is a scalar sub-query
        self.nm = Names(rnd)
        # a second stream for purely syntactic decorations (extra parentheses), so that adding one does not shift the statements drawn from rnd
        self.aux = random.Random(20260926)

    # -- relations
    def base(self, alias=None, force_alias=False, schema="?"):
        r = self.rnd
        sc = (r.choice(self.schemas) if r.random() < self.qualify_p else None) if schema == "?" else schema
        al = alias
        if al is None and (force_alias or r.random() < self.alias_p):
            al = self.nm.alias()
        return Base(self.nm.table(), sc, al, use_as=r.random() < 0.5)

    def join_group(self, rels, allow_nested=True):
        if allow_nested and len(rels) >= 3 and self.rnd.random() < 0.2:
            inner = self.join_group(rels[1:], allow_nested=False)
            inner.joins = [(jt if jt not in ("natural", "cross") else "inner", rel, "on") for jt, rel, _ in inner.joins]
            return Group(rels[0], [(self.rnd.choice(["inner", "left", "right"]), Nested(inner), "on")])
        joins = []
        for rel in rels[1:]:
            jt = self.rnd.choice(JOIN_TYPES)
            cond = "none" if jt in ("cross", "natural") else self.rnd.choice(["on", "on", "using"])
            joins.append((jt, rel, cond))
        return Group(rels[0], joins)

    # -- select lists
    def expr(self, rels, depth, col_fn):
        r = self.rnd
        if depth <= 0 or r.random() < 0.3:
            if self.scalar_p and not getattr(self, "_in_scalar", False) and self.aux.random() < self.scalar_p:
                # coalesce((select max(c) from t), a.x): a scalar sub-query as operand (never nested in another one)
                self._in_scalar = True
                try:
                    q = self.query(0, nitems=1, named=True, allow_setop=False)
                finally:
                    self._in_scalar = False
                if isinstance(q, Select) and not q.items[0].is_star and self.aux.random() < 0.5:
                    # correlated: the sub-query's select expression also uses a column of the enclosing query, qualified by a name that
                    # only the enclosing FROM clause binds:  (select max(r.x - o.a) from r) ... from s o
                    oc = col_fn()
                    inner = {x.key().lower() for x in q.rels()} | {getattr(x, "name", "").lower() for x in q.rels()}
                    if oc.kind == "col" and oc.q and oc.q.lower() not in inner:
                        oc.qfull = None
                        oc.outer = True
                        q.items[0].expr = E("arith", q.items[0].expr, oc, fname=self.aux.choice(["-", "+"]))
                return E("scalar", query=q)
            return col_fn()
        k = r.choice(["arith", "func", "case", "cast", "window", "coalesce"])
        if k == "arith":
            e = E("arith", self.expr(rels, depth - 1, col_fn), self.expr(rels, depth - 1, col_fn) if r.random() < 0.7 else lit(2), fname=r.choice(["+", "-", "*"]))
            # an operand in parentheses of its own: (coalesce(a.x, 0) + a.y) * b.z, (abs(a.x)) - 2
            e.kids = [E("paren", k0) if k0.kind != "lit" and self.aux.random() < 0.35 else k0 for k0 in e.kids]
            return e
        if k == "func":
            return E("func", *[self.expr(rels, depth - 1, col_fn) for _ in range(r.randint(1, 2))], fname=r.choice(["max", "min", "abs", "round", "concat", "upper"]))
        if k == "case":
            e = E("case", self.expr(rels, depth - 1, col_fn), self.expr(rels, depth - 1, col_fn), lit(0) if r.random() < 0.5 else self.expr(rels, depth - 1, col_fn))
            if e.kids[0].kind != "lit" and self.aux.random() < 0.3:
                e.kids[0] = E("paren", e.kids[0])  # CASE WHEN (abs(s.p)) > 0 THEN ...
            return e
        if k == "cast":
            return E("cast", self.expr(rels, depth - 1, col_fn), fname=r.choice(["int", "varchar(20)", "decimal(10, 2)"]))
        if k == "window":
            kids = [self.expr(rels, depth - 1, col_fn), col_fn()]
            if r.random() < 0.5:
                kids.append(col_fn())
            return E("window", *kids, fname=r.choice(["sum", "max", "count"]))
        return E("coalesce", *[self.expr(rels, depth - 1, col_fn) for _ in range(r.randint(2, 3))])

    def qcol(self, rels, env_names=None):
        """a qualified (or single-scope unqualified) reference that is decidable without metadata"""
        r = self.rnd
        rel = r.choice(rels)
        if rel.kind == "base":
            name = self.nm.col()
        else:
            names = [n for n in _rel_names(rel, env_names or {}) if n and n != "*"]
            if not names:
                rel = next((x for x in rels if x.kind == "base"), None)
                if rel is None:
                    return lit(7)
                name = self.nm.col()
            else:
                name = r.choice(names)
        if len(rels) == 1 and r.random() < 0.5:
            return col(name)
        e = col(name, rel.key())
        if rel.kind == "base" and rel.schema and not rel.alias and self.aux.random() < 0.3 and \
                sum(1 for x in rels if x.kind == "base" and x.name == rel.name) == 1:
            e.qfull = f"{rel.schema}.{rel.name}"  # an un-aliased schema-qualified table may be named in full: sa.tb.c
        return e

    def items(self, rels, n, depth=1, env_names=None, allow_star=True, allow_unres=True, allow_lit=True):
        r = self.rnd
        out = []
        for _ in range(n):
            k = r.random()
            have_star = any(i.is_star for i in out)
            if allow_star and not have_star and k < 0.08 and all(x.kind == "base" for x in rels):
                out.append(Item(None, is_star=True))
            elif allow_star and not have_star and k < 0.14:
                rel = r.choice(rels)
                if rel.kind == "base" or (rel.kind == "derived" and all(nn and nn != "*" for nn in _rel_names(rel, env_names or {}))):
                    out.append(Item(None, is_star=True, star_q=rel.key()))
                else:
                    out.append(Item(self.qcol(rels, env_names), self.nm.out()))
            elif allow_lit and k < 0.20:
                out.append(Item(lit(r.choice(["1", "'z'", "null"])), self.nm.out()))
            elif allow_unres and k < 0.30 and len(rels) > 1:
                out.append(Item(col(self.nm.ucol()), self.nm.out() if r.random() < 0.5 else None))
            else:
                # expressions nest one or two levels deeper than the item depth now and then: (abs(a.x) + a.y) * b.z, cast(coalesce(..) as int)
                xd = self.aux.random()
                e = self.expr(rels, r.randint(0, depth) + (2 if xd < 0.1 else 1 if xd < 0.4 else 0), lambda: self.qcol(rels, env_names))
                if e.kind == "col":
                    out.append(Item(e, self.nm.out() if r.random() < 0.5 else None))
                else:
                    out.append(Item(e, self.nm.out()))
        # output names of a query must be unique for positions to be decidable by name
        seen = set()
        for it in out:
            n0 = it.out_name()
            if n0 in seen and not it.is_star:
                it.alias = self.nm.out()
            seen.add(it.out_name())
        return out

    # -- queries
    def simple_select(self, nrel=None, nitems=None, depth=1, preds=True, env=None, cte_names=(), sub_depth=0, allow_star=True, allow_unres=True):
        r = self.rnd
        nrel = nrel or r.choice([1, 1, 2, 2, 3])
        rels = []
        for _ in range(nrel):
            k = r.random()
            if sub_depth > 0 and k < 0.3:
                rels.append(Derived(self.query(sub_depth - 1, env=env, cte_names=cte_names, named=True), self.nm.dalias(), use_as=r.random() < 0.5))
            elif cte_names and k < 0.55:
                rels.append(CteRef(r.choice(list(cte_names)), self.nm.alias() if r.random() < 0.4 else None))
            else:
                rels.append(self.base(force_alias=False))
        # two un-aliased relations must not share a key
        keys = set()
        for rel in rels:
            if rel.key() in keys and rel.kind in ("base", "cte"):
                rel.alias = self.nm.alias()
            keys.add(rel.key())
        shape = r.choice(["join", "join", "comma"]) if nrel > 1 else "single"
        if shape == "comma":
            groups = [Group(x) for x in rels]
        elif shape == "join":
            groups = [self.join_group(rels)]
        else:
            groups = [Group(rels[0])]
        items = self.items(rels, nitems or r.randint(1, 3), depth, env, allow_star, allow_unres)
        where = None
        if preds and r.random() < 0.5:
            where = self.pred(rels, sub_depth, env, cte_names)
        return Select(items, groups, where)

    def pred(self, rels, sub_depth, env, cte_names, kinds=("cmp", "in", "exists", "scalar", "and", "or")):
        r = self.rnd
        k = r.choice(kinds) if sub_depth > 0 else "cmp"
        c = self.qcol([x for x in rels if x.kind == "base"] or rels, env)
        if c.kind != "col":
            c = col("k_1")
        if k == "cmp":
            return P("cmp", colref=c)
        if k in ("and", "or"):
            return P(k, self.pred(rels, sub_depth, env, cte_names, ("cmp", "in", "exists", "scalar")), self.pred(rels, sub_depth, env, cte_names, ("cmp", "in")))
        sub = self.query(sub_depth - 1, env=env, cte_names=cte_names, nitems=1, named=True, allow_setop=False)
        return P(k, colref=c, query=sub)

    def query(self, sub_depth=0, env=None, cte_names=(), nitems=None, named=False, allow_setop=True):
        r = self.rnd
        if allow_setop and r.random() < 0.2:
            n = nitems or r.randint(1, 3)
            first = self.simple_select(nitems=n, env=env, cte_names=cte_names, sub_depth=sub_depth, allow_star=False, allow_unres=False)
            branches = [first]
            for _ in range(r.randint(1, 2)):
                b = self.simple_select(nitems=n, env=env, cte_names=cte_names, sub_depth=sub_depth, allow_star=False, allow_unres=False)
                # positions carry the first branch's names
                for it, f in zip(b.items, first.items):
                    if it.out_name() != f.out_name():
                        it.alias = f.out_name()
                branches.append(b)
            return SetOp(r.choice(["union", "union all", "intersect", "except"]), branches, paren=r.random() < 0.3)
        return self.simple_select(nitems=nitems, env=env, cte_names=cte_names, sub_depth=sub_depth, allow_star=not named, allow_unres=not named)

    def with_query(self, sub_depth=1):
        r = self.rnd
        ctes = []
        env = {}
        for _ in range(r.randint(1, 2)):
            name = self.nm.cte()
            q = self.query(sub_depth - 1, env=env, cte_names=[n for n, _ in ctes], named=True)
            ctes.append((name, q))
            env[name] = q.outputs(env)
        # the body references every CTE not referenced by a later CTE at least once
        body = None
        for _ in range(20):
            body = self.query(sub_depth - 1, env=env, cte_names=[n for n, _ in ctes])
            used = _cte_uses(body) | set().union(*[_cte_uses(q) for _, q in ctes])
            if all(n in used for n, _ in ctes):
                break
        else:
            rel = CteRef(ctes[-1][0])
            prev = [CteRef(n) for n, _ in ctes[:-1]]
            rels = [rel] + prev
            body = Select(self.items(rels, 2, 1, env, allow_star=False, allow_unres=False), [Group(x) for x in rels])
        return With(ctes, body)

    # -- statements
    def target(self):
        return Base(self.nm.table(), self.rnd.choice(self.schemas) if self.rnd.random() < self.qualify_p else None)

    def statement(self, depth=2, kinds=None):
        r = self.rnd
        k = r.choice(kinds or ["insert", "insert", "insert_cols", "ctas", "create_view", "bare", "select_into", "update", "update_from", "merge", "copy", "create_like",
                               "insert_values", "delete", "delete_sub", "truncate", "with_insert"])
        t = self.target()
        if k in ("insert", "ctas", "create_view", "bare", "select_into", "insert_cols"):
            q = self.with_query(depth) if r.random() < 0.25 and k not in ("select_into",) else self.query(depth)
            if k == "select_into" and not isinstance(q, Select):
                q = self.simple_select(sub_depth=depth)
            cols = None
            if k == "insert_cols" or (k == "create_view" and r.random() < 0.3):
                outs = q.outputs()
                if any(n == "*" for n, _, _ in outs) or _has_star(q):
                    k = "insert" if k == "insert_cols" else k
                else:
                    cols = [self.nm.out() for _ in outs]
            return Stmt(k, t, q, cols)
        if k == "with_insert":
            return Stmt("insert", t, self.with_query(depth))
        if k in ("update", "update_from"):
            frm = None
            scope = [t]
            if k == "update_from":
                rels = [self.base(force_alias=r.random() < 0.5) for _ in range(r.randint(1, 2))]
                frm = [self.join_group(rels)] if r.random() < 0.5 or len(rels) == 1 else [Group(x) for x in rels]
                scope += rels
            sets = []
            for _ in range(r.randint(1, 2)):
                if frm and r.random() < 0.8:
                    src = r.choice(scope[1:])
                    sets.append((self.nm.col(), col(self.nm.col(), src.key())))
                elif depth > 0 and r.random() < 0.3:
                    sets.append((self.nm.col(), E("scalar", query=self.query(0, nitems=1, named=True, allow_setop=False))))
                else:
                    sets.append((self.nm.col(), lit(1)))
            where = self.pred(scope, depth if r.random() < 0.5 else 0, None, ()) if r.random() < 0.6 else None
            return Stmt("update", t, None, None, {"set": sets, "from": frm, "where": where})
        if k == "merge":
            if r.random() < 0.5:
                src = self.base(force_alias=r.random() < 0.6)
                names = [self.nm.col() for _ in range(3)]
            else:
                q = self.query(depth - 1, named=True, allow_setop=False)
                src = Derived(q, self.nm.dalias(), use_as=r.random() < 0.5)
                names = [n for n in _rel_names(src, {}) if n]
            upd = [(self.nm.col(), r.choice(names)) for _ in range(r.randint(0, 2))]
            ins = [(self.nm.col(), n) for n in names[: r.randint(1, len(names))]] if r.random() < 0.7 or not upd else []
            return Stmt("merge", t, None, None, {"source": src, "update": upd, "insert": ins})
        if k == "copy":
            return Stmt("copy", t, None, None, {"path": r.choice(["s3://bucket/p1/f.csv", "/data/in/f1.csv"])})
        if k == "create_like":
            return Stmt("create_like", t, None, None, {"like": self.target()})
        if k == "delete_sub":
            return Stmt("delete_sub", t, self.query(0, nitems=1, named=True, allow_setop=False))
        return Stmt(k, t)


def _cte_uses(q):
    out = set()
    if isinstance(q, Select):
        for rel in q.rels():
            if rel.kind == "cte":
                out.add(rel.name)
    for s in q.subqueries():
        out |= _cte_uses(s)
    if isinstance(q, SetOp):
        for b in q.branches:
            out |= _cte_uses(b)
    if isinstance(q, With):
        out |= _cte_uses(q.body)
    return out


# --------------------------------------------------------------------------- bounded-exhaustive depth-1 shapes
def from_shapes(g):
    """name -> function(gen) returning (groups, rels)"""
    def two(jt, cond, a1=False, a2=False, sc=None):
        def f(g):
            r1, r2 = g.base(force_alias=a1, schema=sc), g.base(force_alias=a2, schema=sc)
            if not a1:
                r1.alias = None
            if not a2:
                r2.alias = None
            return [Group(r1, [(jt, r2, cond)])]
        return f

    shapes = {}
    shapes["single"] = lambda g: [Group(_noalias(g.base(schema=None)))]
    shapes["single_alias"] = lambda g: [Group(g.base(force_alias=True, schema=None))]
    shapes["single_schema"] = lambda g: [Group(_noalias(g.base(schema="sa")))]
    shapes["single_schema_alias"] = lambda g: [Group(g.base(force_alias=True, schema="sb"))]
    for jt in JOIN_TYPES:
        cond = "none" if jt in ("cross", "natural") else "on"
        shapes["join_" + jt.replace(" ", "_")] = two(jt, cond)
        shapes["join_" + jt.replace(" ", "_") + "_aliased"] = two(jt, cond, True, True)
    shapes["join_using"] = two("inner", "using")
    shapes["join_schema"] = two("left", "on", False, True, "sa")
    shapes["join3"] = lambda g: [g.join_group([_noalias(g.base(schema=None)), g.base(force_alias=True, schema=None), _noalias(g.base(schema="sa"))])]
    shapes["comma2"] = lambda g: [Group(_noalias(g.base(schema=None))), Group(_noalias(g.base(schema=None)))]
    shapes["comma3_alias"] = lambda g: [Group(g.base(force_alias=True, schema=None)), Group(g.base(force_alias=True, schema="sa")), Group(_noalias(g.base(schema=None)))]
    shapes["mixed_comma_join"] = lambda g: [g.join_group([_noalias(g.base(schema=None)), _noalias(g.base(schema=None))]), Group(_noalias(g.base(schema=None)))]
    shapes["mixed_comma_join_first"] = lambda g: [Group(_noalias(g.base(schema=None))), g.join_group([g.base(force_alias=True, schema=None), g.base(force_alias=True, schema=None)])]
    shapes["self_join"] = lambda g: _self_join(g)
    shapes["join_nested_group"] = lambda g: [Group(_noalias(g.base(schema=None)), [("inner", Nested(Group(g.base(force_alias=True, schema=None), [("left", _noalias(g.base(schema="sa")), "on")])), "on")])]
    return shapes


def _noalias(b):
    b.alias = None
    return b


def _self_join(g):
    a = g.base(force_alias=True, schema=None)
    b = Base(a.name, a.schema, g.nm.alias(), True)
    return [Group(a, [("inner", b, "on")])]


def hole_shapes():
    """sub-query positions; each takes (gen, inner query factory) and returns a Select using base tables plus the hole"""
    return ["none", "derived", "derived_joined", "derived_first_joined", "where_in", "where_exists", "where_scalar", "where_and_in", "where_or_exists",
            "select_scalar", "having_scalar", "setop_union", "setop_union_all_paren", "setop_intersect3", "cte", "cte_aliased", "cte_chain", "nested_derived"]


def build_select(g, from_name, hole, inner=None, nitems=2):
    """depth-1 / depth-2 construction used by the bounded-exhaustive enumeration"""
    groups = from_shapes(g)[from_name](g)
    rels = [x for gr in groups for x in gr.rels()]
    mk_inner = inner or (lambda: Select([Item(col(g.nm.col()))], [Group(_noalias(g.base(schema=None)))]))
    where = having = None
    group_by = None
    ctes = None
    if hole == "derived":
        d = Derived(_named(g, mk_inner()), g.nm.dalias())
        groups = [Group(d)]
        rels = [d]
    elif hole in ("derived_joined", "derived_first_joined"):
        d = Derived(_named(g, mk_inner()), g.nm.dalias(), use_as=True)
        if hole == "derived_joined":
            groups[-1].joins.append(("left", d, "on"))
        else:
            groups = [Group(d, [("inner", rels[0], "on")] + groups[0].joins)] + groups[1:]
        rels = [x for gr in groups for x in gr.rels()]
    elif hole == "nested_derived":
        inner_d = Derived(_named(g, mk_inner()), g.nm.dalias())
        mid = Select([Item(col(n, inner_d.key())) for n in _rel_names(inner_d, {}) if n], [Group(inner_d)])
        d = Derived(mid, g.nm.dalias())
        groups = [Group(d)]
        rels = [d]
    items = g.items(rels, nitems, 1, {}, allow_star=False, allow_unres=False, allow_lit=False)
    qc = col(g.nm.col(), rels[0].key()) if rels[0].kind == "base" else col("k_1")
    if hole == "where_in":
        where = P("in", colref=qc, query=_one(g, mk_inner()))
    elif hole == "where_exists":
        where = P("exists", colref=qc, query=mk_inner())
    elif hole == "where_scalar":
        where = P("scalar", colref=qc, query=_one(g, mk_inner()))
    elif hole == "where_and_in":
        where = P("and", P("cmp", colref=qc), P("in", colref=qc, query=_one(g, mk_inner())))
    elif hole == "where_or_exists":
        where = P("or", P("exists", colref=qc, query=mk_inner()), P("cmp", colref=qc))
    elif hole == "select_scalar":
        items.append(Item(E("scalar", query=_one(g, mk_inner())), g.nm.out()))
    elif hole == "having_scalar":
        group_by = [qc]
        items = [Item(qc, None), Item(E("func", col(g.nm.col(), rels[0].key()) if rels[0].kind == "base" else lit(1), fname="max"), g.nm.out())]
        having = P("scalar", colref=E("func", lit(1), fname="count"), query=_one(g, mk_inner()))
    sel = Select(items, groups, where, having, group_by)
    if hole.startswith("setop"):
        n = len(sel.items)
        others = []
        for _ in range(2 if hole == "setop_intersect3" else 1):
            o = _named(g, mk_inner(), n)
            for it, f in zip(o.items, sel.items):
                it.alias = f.out_name()
            others.append(o)
        op = {"setop_union": "union", "setop_union_all_paren": "union all", "setop_intersect3": "intersect"}[hole]
        return SetOp(op, [sel] + others, paren=hole == "setop_union_all_paren")
    if hole.startswith("cte"):
        name = g.nm.cte()
        cq = _named(g, mk_inner())
        ctes = [(name, cq)]
        env = {name: cq.outputs()}
        if hole == "cte_chain":
            name2 = g.nm.cte()
            cq2 = Select([Item(col(n, name)) for n in [x for x, _, _ in env[name]] if n], [Group(CteRef(name))])
            ctes.append((name2, cq2))
            env[name2] = cq2.outputs(env)
            name = name2
        ref = CteRef(name, g.nm.alias() if hole == "cte_aliased" else None)
        groups[-1].joins.append(("inner", ref, "on"))
        rels = [x for gr in groups for x in gr.rels()]
        names = [n for n, _, _ in env[name] if n]
        items = items + [Item(col(names[0], ref.key()), g.nm.out())]
        return With(ctes, Select(items, groups, where))
    return sel


def _named(g, q, n=None):
    """make a query usable as a named relation: explicit, unique output names"""
    if isinstance(q, Select):
        if n is not None:
            rels = q.rels()
            q.items = g.items(rels, n, 1, {}, allow_star=False, allow_unres=False, allow_lit=False)
        for it in q.items:
            if it.out_name() is None:
                it.alias = g.nm.out()
    return q


def _one(g, q):
    if isinstance(q, Select) and len(q.items) != 1:
        q.items = q.items[:1]
    return q


STMT_KINDS_TABLE = ["insert", "ctas", "create_view", "bare", "select_into", "insert_cols"]


def wrap(g, kind, q):
    t = g.target()
    cols = None
    if kind == "insert_cols":
        outs = q.outputs() if not isinstance(q, With) else q.outputs()
        cols = [g.nm.out() for _ in outs]
    if kind == "select_into" and not isinstance(q, Select):
        kind = "insert"
    return Stmt(kind, t, q, cols)


def enumerate_depth1(seed=0):
    """all (statement kind x FROM shape x hole) at depth 1; deterministic"""
    out = []
    g0 = Gen(random.Random(seed))
    names = list(from_shapes(g0))
    for kind in STMT_KINDS_TABLE:
        for fn in names:
            for hole in hole_shapes():
                g = Gen(random.Random(shash(seed, kind, fn, hole)))
                q = build_select(g, fn, hole)
                out.append(((kind, fn, hole), wrap(g, kind, q)))
    return out


def enumerate_depth2(seed=0, from_names=("single", "join_left_aliased", "comma2")):
    """hole-complete depth 2: every hole filled with every depth-1 query shape (over a few FROM shapes)"""
    out = []
    for fn in from_names:
        for hole in hole_shapes()[1:]:
            for ifn in ("single_alias", "join_inner", "mixed_comma_join", "comma2"):
                for ihole in hole_shapes():
                    if ihole.startswith("cte"):
                        continue
                    g = Gen(random.Random(shash(seed, fn, hole, ifn, ihole)))
                    inner = (lambda g=g, ifn=ifn, ihole=ihole: build_select(g, ifn, ihole, nitems=1))
                    try:
                        q = build_select(g, fn, hole, inner=inner)
                    except Exception:
                        continue
                    out.append((("insert", fn, hole, ifn, ihole), wrap(g, "insert", q)))
    return out


# --------------------------------------------------------------------------- at-risk tables per known-finding mechanism
def _base_tables(q, ds=None):
    return q.reads(ds)


def risk(stmt, ds=None):
    """mechanism tag -> base tables that are reachable *only through* AST nodes carrying that mechanism
    (used to recognise the narrow 'lost sources' shape of a listed known finding)"""
    out = {}

    def add(tag, tables):
        if tables:
            out.setdefault(tag, set()).update(tables)

    def walk_pred(pr):
        # IN (select ... from a, b): the comma makes the bracket an expression list for the parser; only the first relation survives
        if pr.kind == "in" and isinstance(pr.query, Select) and len(pr.query.groups) > 1:
            lost = set()
            for g in pr.query.groups[1:]:
                for rel in g.rels():
                    if rel.kind == "base":
                        lost.add(rel.full(ds))
                    elif rel.kind == "derived":
                        lost |= rel.query.reads(ds)
            out.setdefault("where.in_subquery_comma_join", set())  # the mechanism is present even when only CTE references are lost
            add("where.in_subquery_comma_join", lost)
        # ((select ...) union all (select ...)) as a predicate sub-query: only the first branch is analysed
        if pr.query is not None and isinstance(pr.query, SetOp) and pr.query.paren:
            lost = set()
            for b in pr.query.branches[1:]:
                lost |= b.reads(ds)
            add("where.subquery_setop_paren", lost)
            if pr.kind == "exists":
                # some dialect grammars read EXISTS ((...) op (...)) as nested function calls (KF-14i)
                add("where.exists_setop_paren", pr.query.reads(ds))
        for k in pr.kids:
            walk_pred(k)

    def walk_query(q):
        if isinstance(q, With):
            for _, c in q.ctes:
                walk_query(c)
            walk_query(q.body)
            return
        if isinstance(q, SetOp):
            if q.paren:
                for b in q.branches[1:]:
                    add("setop.paren_later_branches", b.reads(ds))
                add("setop.paren_first_branch", q.branches[0].reads(ds))
            for b in q.branches:
                walk_query(b)
            return
        if len(q.groups) > 1 and any(g.joins for g in q.groups):
            for g in q.groups:
                for rel in g.rels()[1:]:
                    if rel.kind == "base":
                        add("from.mixed_comma_join", {rel.full(ds)})
                    elif rel.kind == "derived":
                        add("from.mixed_comma_join", rel.query.reads(ds))
            for rel in q.rels()[1:]:
                add("from.mixed_comma_join_any", {rel.full(ds)} if rel.kind == "base" else rel.query.reads(ds) if rel.kind == "derived" else set())
        for g in q.groups:
            for _, rel, _ in g.joins:
                if rel.kind == "nested":
                    for r2 in rel.group.rels():
                        add("join.parenthesised_group", {r2.full(ds)} if r2.kind == "base" else r2.query.reads(ds) if r2.kind == "derived" else set())
        for it in q.items:
            if not it.is_star:
                for s in it.expr.subqueries(risky_only=it.expr.kind == "case_multi" and bool(it.alias)):
                    add("select.scalar_subquery", s.reads(ds))
        if q.having is not None:
            for s in q.having.subqueries():
                add("having.subquery", s.reads(ds))
        for pr in (q.where, q.having):
            if pr is not None:
                walk_pred(pr)
        if q.where is not None:
            for s in q.where.subqueries():
                add("where.subquery", s.reads(ds))
            for kid in q.where.kids:
                for s in kid.subqueries():
                    add("where.subquery_under_bool", s.reads(ds))
        for s in q.subqueries():
            walk_query(s)

    if stmt.query is not None:
        walk_query(stmt.query)
    if stmt.kind == "update":
        e = stmt.extra
        if e.get("where") is not None:
            walk_pred(e["where"])
            for s in e["where"].subqueries():
                add("update.where_subquery", s.reads(ds))
                walk_query(s)
        for _, ex in e["set"]:
            for s in ex.subqueries():
                add("update.set_subquery", s.reads(ds))
        frm = e.get("from") or []
        if len(frm) > 1 and any(g.joins for g in frm):
            for g in frm:
                for rel in g.rels()[1:]:
                    if rel.kind == "base":
                        add("from.mixed_comma_join", {rel.full(ds)})
        for g in frm:
            for rel in g.rels():
                if rel.kind == "derived":
                    walk_query(rel.query)
    if stmt.kind == "merge" and stmt.extra["source"].kind == "derived":
        walk_query(stmt.extra["source"].query)
    return {k: sorted(v) for k, v in out.items()}


# --------------------------------------------------------------------------- alpha renaming of statement-local names (C08)
def walk(stmt):
    """yield every Select, With and expression-bearing node of a statement"""
    seen = []

    def wq(q):
        if q is None:
            return
        seen.append(q)
        if isinstance(q, With):
            for _, c in q.ctes:
                wq(c)
            wq(q.body)
        elif isinstance(q, SetOp):
            for b in q.branches:
                wq(b)
        else:
            for s in q.subqueries():
                wq(s)

    wq(stmt.query)
    if stmt.kind == "update":
        e = stmt.extra
        for g in e.get("from") or []:
            for rel in g.rels():
                if rel.kind == "derived":
                    wq(rel.query)
        if e.get("where") is not None:
            for s in e["where"].subqueries():
                wq(s)
        for _, ex in e["set"]:
            for s in ex.subqueries():
                wq(s)
    if stmt.kind == "merge" and stmt.extra["source"].kind == "derived":
        wq(stmt.extra["source"].query)
    return seen


def all_rels(stmt):
    out = []
    for q in walk(stmt):
        if isinstance(q, Select):
            out += [(q, rel) for rel in q.rels()]
    if stmt.kind == "update":
        for g in stmt.extra.get("from") or []:
            out += [(None, rel) for rel in g.rels()]
    if stmt.kind == "merge":
        out.append((None, stmt.extra["source"]))
        if getattr(stmt.target, "alias", None):
            out.append((None, stmt.target))
    return out


def all_exprs(stmt):
    out = []

    def we(e):
        out.append(e)
        for k in e.kids:
            we(k)

    def wp(p):
        if p is None:
            return
        if p.colref is not None:
            we(p.colref)
        for k in p.kids:
            wp(k)

    for q in walk(stmt):
        if isinstance(q, Select):
            for it in q.items:
                if not it.is_star:
                    we(it.expr)
            wp(q.where)
            wp(q.having)
            for c in q.group_by or []:
                we(c)
    if stmt.kind == "update":
        for _, ex in stmt.extra["set"]:
            we(ex)
        wp(stmt.extra.get("where"))
    if stmt.kind == "merge":
        for _, ex in stmt.extra.get("self") or []:
            we(ex)
    return out


def alpha_rename(stmt, rnd, mode="rename", pool=()):
    """returns (renamed deep copy, {old local name -> new local name}); mode in rename | toggle_as | add_alias | drop_alias"""
    import copy

    st = copy.deepcopy(stmt)
    rels = all_rels(st)
    exprs = all_exprs(st)
    stars = [it for q in walk(st) if isinstance(q, Select) for it in q.items if it.is_star and it.star_q]
    mapping = {}
    if mode == "toggle_as":
        for _, rel in rels:
            if getattr(rel, "alias", None):
                rel.use_as = not rel.use_as
        return st, mapping
    used = {rel.key() for _, rel in rels} | {rel.name for _, rel in rels if rel.kind in ("base", "cte")}
    correlated = any(getattr(e, "outer", False) for e in exprs)  # then inner names must not come to shadow outer ones
    withs = [q for q in walk(st) if isinstance(q, With)]

    def fresh(avoid):
        cands = [p for p in pool if p.lower() not in avoid and p.lower() not in {v.lower() for v in mapping.values()}]
        if cands and rnd.random() < 0.7:
            return rnd.choice(cands)
        while True:
            n = f"zr{rnd.randrange(10 ** 6)}"
            if n not in avoid:
                return n

    if mode == "rename":
        for sel, rel in rels:
            if getattr(rel, "alias", None) and rel.alias not in mapping:
                # names visible in this FROM scope: the keys of its relations (a table that is aliased away is not visible by its bare name)
                scope = {r.key().lower() for r in sel.rels()} if sel is not None else set(x.lower() for x in used)
                if st.target is not None:
                    scope.add(st.target.name.lower())
                local = {k.lower() for k in used if not k.startswith("tb_k")}  # other aliases / CTE names anywhere in the statement
                # now and then the new name is an alias that lives in ANOTHER scope of the statement (inner names shadow outer ones; the
                # generator writes no correlated references, so the meaning is unchanged); never a CTE name, which is visible everywhere
                cte_names = {n.lower() for w in withs for n, _ in w.ctes} | {r2.name.lower() for _, r2 in rels if r2.kind == "cte"}
                elsewhere = sorted({r2.alias for s2, r2 in rels if s2 is not sel and getattr(r2, "alias", None) and r2.kind != "cte"
                                    and r2.alias.lower() not in scope and r2.alias.lower() not in cte_names})
                taken_here = {str(mapping[r2.alias]).lower() for r2 in (sel.rels() if sel is not None else []) if getattr(r2, "alias", None) in mapping}
                # the name taken over is the FINAL name of that other-scope alias (pinned to itself if it has not been renamed yet)
                elsewhere = [x for x in elsewhere if str(mapping.get(x, x)).lower() not in taken_here and str(mapping.get(x, x)).lower() not in scope]
                if elsewhere and not correlated and rnd.random() < 0.4:
                    x = rnd.choice(elsewhere)
                    mapping.setdefault(x, x)
                    mapping[rel.alias] = mapping[x]
                else:
                    mapping[rel.alias] = fresh(scope | local)
        for w in withs:
            for n, _ in w.ctes:
                if n not in mapping:
                    mapping[n] = fresh({u.lower() for u in used})
    elif mode == "drop_alias":
        for sel, rel in rels:
            if rel.kind == "base" and rel.alias and sel is not None:
                others = [r for r in sel.rels() if r is not rel]
                if correlated and any(r.key() == rel.name or getattr(r, "name", None) == rel.name for _, r in rels if r is not rel):
                    continue
                if all(r.key() != rel.name and getattr(r, "name", None) != rel.name for r in others) and rnd.random() < 0.7:
                    mapping[rel.alias] = rel.name
    elif mode == "add_alias":
        for sel, rel in rels:
            if rel.kind == "base" and not rel.alias and rnd.random() < 0.7:
                # the bare name must denote this relation only: no second un-aliased table of that name (an aliased namesake is hidden behind its alias)
                if sum(1 for _, r in rels if r.kind == "base" and r.name == rel.name and not r.alias) == 1:
                    mapping[rel.name] = fresh({u.lower() for u in used})
    # apply
    for _, rel in rels:
        if mode == "drop_alias":
            if rel.kind == "base" and rel.alias in mapping:
                rel.alias = None
        elif mode == "add_alias":
            if rel.kind == "base" and not rel.alias and rel.name in mapping:
                rel.alias = mapping[rel.name]
        else:
            if getattr(rel, "alias", None) in mapping:
                rel.alias = mapping[rel.alias]
            if rel.kind == "cte" and rel.name in mapping:
                rel.name = mapping[rel.name]
    for w in withs:
        w.ctes = [(mapping.get(n, n), q) for n, q in w.ctes]
    for e in exprs:
        if e.kind == "col" and e.q in mapping:
            e.q = mapping[e.q]
            if mode == "add_alias" and getattr(e, "qfull", None):
                e.qfull = None  # once aliased, a table is no longer addressable by its full name
    for it in stars:
        if it.star_q in mapping:
            it.star_q = mapping[it.star_q]
    return st, mapping
