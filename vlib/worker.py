"""Worker interpreter: reads JSON requests on stdin, answers on the original stdout fd.
Request  {"id": n, "op": "module:function", "arg": ...}
Response {"id": n, "ok": true, "res": ...} | {"id": n, "ok": false, "err": traceback}
The system under test is imported from $VERIF_REPO; its own prints/logs go to stderr."""
import importlib
import json
import os
import sys
import traceback


def main():
    from vlib import env

    env.use_repo()
    out = os.fdopen(os.dup(1), "w", buffering=1)
    # anything the code under test prints must not corrupt the protocol
    devnull = open(os.devnull, "w")
    os.dup2(devnull.fileno(), 1)
    sys.stdout = devnull
    import logging

    logging.disable(logging.CRITICAL)
    cache = {}
    for line in sys.stdin:
        line = line.strip()
        if not line:
            continue
        req = json.loads(line)
        rid = req.get("id")
        try:
            op = req["op"]
            fn = cache.get(op)
            if fn is None:
                mod, name = op.split(":")
                fn = getattr(importlib.import_module(mod), name)
                cache[op] = fn
            res = fn(req.get("arg"))
            msg = json.dumps({"id": rid, "ok": True, "res": res}, default=str)
        except BaseException as e:  # harness error, reported as such
            if isinstance(e, (KeyboardInterrupt, SystemExit)) and not isinstance(e, SystemExit):
                raise
            msg = json.dumps({"id": rid, "ok": False, "err": traceback.format_exc()[-4000:]})
        out.write(msg + "\n")
        out.flush()


if __name__ == "__main__":
    main()
