"""C10 worker ops: outcome of touching every accessor on arbitrary text, plus an independent parse oracle
(sqlfluff's own Linter.parse_string, a dependency, not code under test)."""
import warnings

from . import env, observe, taps

env.use_repo()

PANEL = ["ansi", "mysql", "sparksql", "tsql", "postgres", "bigquery", "snowflake", "hive", "oracle", "redshift"]
_LINT = {}


def sqlfluff_accepts(sql, dialect):
    """True/False, or None when sqlfluff itself crashes on the text"""
    from sqlfluff.core import FluffConfig, Linter, SQLLexError, SQLParseError

    try:
        lt = _LINT.get(dialect)
        if lt is None:
            lt = _LINT[dialect] = Linter(config=FluffConfig(overrides={"dialect": dialect}))
        parsed = lt.parse_string(sql)
        bad = [v for v in parsed.violations if isinstance(v, (SQLLexError, SQLParseError))]
        return not bad
    except Exception:
        return None


def run_mut(case):
    """case: sql, dialect, silent, metadata; flags: oracle (independent parse when a result was returned)"""
    c = dict(case)
    c["want"] = ["after_error"]
    rec = observe.run_case(c)
    out = {"outcome": "ok" if rec["outcome"] == "ok" else {k: rec["outcome"][k] for k in
                                                          ("exc_type", "exc_module", "is_library_exception", "inner_sqllineage", "raising", "message")},
           "n_statements": len(rec.get("statements") or []), "n_tables": len(rec.get("source") or []) + len(rec.get("target") or []),
           "warnings": rec.get("warnings", []), "taps_missing": rec.get("taps_missing", []),
           "dispatch": sorted({d[0] for d in rec.get("dispatch", [])})}
    if rec["outcome"] != "ok":
        out["frames"] = rec["outcome"]["frames"]
        out["after_error"] = rec.get("after_error")
    dialect = case.get("dialect", "ansi")
    # single statement: no separator at all and the runner itself reported exactly one statement
    single = ";" not in case["sql"] and len(rec.get("statements") or []) == 1
    if case.get("oracle") and dialect != "non-validating" and single and case["sql"].strip():
        if rec["outcome"] == "ok":
            with warnings.catch_warnings():
                warnings.simplefilter("ignore")
                acc = sqlfluff_accepts(case["sql"].strip(), dialect)
            out["independent_accepts"] = acc
    if rec["outcome"] != "ok" and not rec["outcome"]["is_library_exception"]:
        sqlparse_frames = any(f[0].startswith("sqllineage/core/parser/sqlparse/") for f in rec["outcome"]["frames"])
        out["sqlparse_on_stack"] = sqlparse_frames
        if dialect == "non-validating" or sqlparse_frames:
            with warnings.catch_warnings():
                warnings.simplefilter("ignore")
                verdicts = {}
                for d in list(dict.fromkeys((case.get("panel") or []) + PANEL)):
                    verdicts[d] = sqlfluff_accepts(case["sql"].strip(), d)
            out["panel_accepting"] = sorted(d for d, v in verdicts.items() if v)
    if case.get("want_public"):
        out["public"] = {k: rec.get(k) for k in ("source", "target", "intermediate", "column_paths", "cyto_table", "cyto_column")}
        out["statements"] = rec.get("statements")
    return out
