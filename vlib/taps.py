"""Recording wrappers ("taps") installed at run time on boundary functions of the real package.
No tap changes arguments, results or exceptions. Every tap counts its calls; a tap whose target
is missing (refactoring) is reported in MISSING and the checks that need it end inconclusive."""
import threading

from . import env

env.use_repo()

_tl = threading.local()
MISSING = []
COUNTS = {"analyze": 0, "of": 0, "register": 0, "deregister": 0, "lookup": 0,
          "session_enter": 0, "session_exit": 0, "extract": 0}
_installed = False
_lock = threading.Lock()


def state():
    s = getattr(_tl, "s", None)
    if s is None:
        s = _tl.s = {"depth": 0, "stmts": [], "holders": [], "of": [], "session": [],
                     "dispatch": [], "active": False, "work": 0}
    return s


def begin():
    s = state()
    s.update(depth=0, stmts=[], holders=[], of=[], session=[], dispatch=[], active=True, work=0)
    return s


def end():
    s = state()
    s["active"] = False
    return s


def _bump(k):
    with _lock:
        COUNTS[k] += 1


def _owner(p, rich):
    """rich: a sub-query owner carries a digest of its own text, so that two sub-queries / CTEs sharing a name stay two owners"""
    s = str(p)
    if rich and hasattr(p, "query_raw"):
        import hashlib

        s += "@" + hashlib.sha1(str(p.query_raw).encode()).hexdigest()[:6]
    return s


def coldesc(col, rich=False):
    """Identity of a column as the public API prints it, plus its candidate owners."""
    ps = col.parent_candidates
    if len(ps) == 1:
        return str(col) if not rich else _owner(ps[0], True) + "." + col.raw_name if hasattr(ps[0], "query_raw") else str(col)
    if len(ps) == 0:
        return "<none>." + col.raw_name
    return "<" + "|".join(_owner(p, rich) for p in ps) + ">." + col.raw_name


def dsdesc(t):
    from sqllineage.core.models import Path

    return ("path:" if isinstance(t, Path) else "") + str(t)


def holder_facts(h):
    from sqllineage.core.models import Column
    from sqllineage.utils.constant import EdgeType

    col_edges = sorted(
        [coldesc(s), coldesc(t)]
        for s, t, ty in h.graph.edges(data="type")
        if ty == EdgeType.LINEAGE and isinstance(s, Column) and isinstance(t, Column)
    )
    owned = sorted(
        {coldesc(t) for s, t, ty in h.graph.edges(data="type") if ty == EdgeType.HAS_COLUMN and isinstance(t, Column)}
    )
    rich = {
        "col_edges_rich": sorted([coldesc(s, True), coldesc(t, True)] for s, t, ty in h.graph.edges(data="type")
                                 if ty == EdgeType.LINEAGE and isinstance(s, Column) and isinstance(t, Column)),
        "owned_columns_rich": sorted({coldesc(t, True) for s, t, ty in h.graph.edges(data="type") if ty == EdgeType.HAS_COLUMN and isinstance(t, Column)}),
    }
    return {
        **rich,
        "owned_columns": owned,
        "read": sorted(dsdesc(t) for t in h.read),
        "write": sorted(dsdesc(t) for t in h.write),
        "cte": sorted(str(t) for t in h.cte),
        "drop": sorted(str(t) for t in h.drop),
        "rename": sorted([str(a), str(b)] for a, b in h.rename),
        "rename_in_order": [[str(a), str(b)] for a, b in (getattr(h, "rename_in_order", None) or sorted(h.rename, key=str))],
        "col_edges": col_edges,
    }


def install():
    global _installed
    if _installed:
        return
    _installed = True
    from sqllineage.core import holders, metadata_provider
    from sqllineage.core.parser.sqlfluff import analyzer as fa
    from sqllineage.core.parser.sqlparse import analyzer as pa
    from sqllineage.core.parser.sqlfluff.extractors.base import BaseExtractor

    def wrap_analyze(cls, parser):
        orig = cls.__dict__.get("analyze")
        if orig is None:
            MISSING.append(cls.__name__ + ".analyze")
            return

        def analyze(self, sql, metadata_provider, *a, **k):
            s = state()
            _bump("analyze")
            top = s["depth"] == 0 and s["active"]
            s["depth"] += 1
            s["work"] += 1
            ev = None
            if top:
                ev = {"ord": len(s["stmts"]), "text": sql, "parser": parser}
                s["stmts"].append(ev)
            try:
                h = orig(self, sql, metadata_provider, *a, **k)
            except BaseException as e:
                if ev is not None:
                    ev["exc"] = type(e).__name__
                raise
            finally:
                s["depth"] -= 1
                s["work"] -= 1
            if ev is not None:
                try:
                    ev["facts"] = holder_facts(h)
                except Exception as e:  # monitor must not break the run
                    ev["facts_error"] = repr(e)
                s["holders"].append(h)
            return h

        cls.analyze = analyze

    wrap_analyze(fa.SqlFluffLineageAnalyzer, "sqlfluff")
    wrap_analyze(pa.SqlParseLineageAnalyzer, "sqlparse")

    # assemble tap
    cls = holders.SQLLineageHolder
    if "of" not in cls.__dict__:
        MISSING.append("SQLLineageHolder.of")
    else:
        orig_of = cls.__dict__["of"].__func__

        def of(metadata_provider, *args):
            s = state()
            _bump("of")
            s["work"] += 1
            try:
                res = orig_of(metadata_provider, *args)
            finally:
                s["work"] -= 1
            if s["depth"] == 0 and s["active"]:
                s["of"].append({"n": len(args), "holder": res})
            return res

        cls.of = staticmethod(of)

    # session tap
    P = metadata_provider.MetaDataProvider

    def wrap_session(name, key, getinfo):
        orig = P.__dict__.get(name)
        if orig is None:
            MISSING.append("MetaDataProvider." + name)
            return

        def w(self, *a, **k):
            s = state()
            _bump(key)
            if s["active"]:
                ev = {"op": key, "prov": id(self), "depth": s["depth"], "at_stmt": len(s["stmts"])}
                try:
                    ev.update(getinfo(*a, **k))
                except Exception:
                    pass
                s["session"].append(ev)
            if key == "deregister":
                return orig(self, *a, **k)
            s["work"] += 1
            try:
                return orig(self, *a, **k)
            finally:
                s["work"] -= 1

        setattr(P, name, w)

    wrap_session("register_session_metadata", "register",
                 lambda table, columns: {"table": str(table), "cols": [c.raw_name for c in columns]})
    wrap_session("deregister_session_metadata", "deregister", lambda: {})
    wrap_session("get_table_columns", "lookup", lambda table, **k: {"table": str(table)})

    S = metadata_provider.MetaDataSession
    for name, key in (("__enter__", "session_enter"), ("__exit__", "session_exit")):
        orig = S.__dict__.get(name)
        if orig is None:
            MISSING.append("MetaDataSession." + name)
            continue

        def mk(orig, key):
            def w(self, *a, **k):
                s = state()
                _bump(key)
                if s["active"]:
                    s["session"].append({"op": key, "prov": id(self.metadata_provider),
                                         "depth": s["depth"], "at_stmt": len(s["stmts"])})
                return orig(self, *a, **k)

            return w

        setattr(S, name, mk(orig, key))

    # dispatch tap: which extractor handled which statement type
    def wrap_extract(sub):
        orig = sub.__dict__.get("extract")
        if orig is None:
            return

        def extract(self, statement, context, *a, **k):
            s = state()
            _bump("extract")
            if s["active"]:
                s["dispatch"].append([type(self).__name__, getattr(statement, "type", "?")])
            return orig(self, statement, context, *a, **k)

        sub.extract = extract

    import sqllineage.core.parser.sqlfluff.extractors  # noqa: F401  (registers subclasses)

    subs = BaseExtractor.__subclasses__()
    if not subs:
        MISSING.append("BaseExtractor.__subclasses__")
    for sub in subs:
        wrap_extract(sub)
