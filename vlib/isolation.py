"""C12 worker ops: histories of runs on shared providers, session-balance monitor, crash points
(failing statements, failing provider lookups, sys.monitoring line failpoints) and the thread monitor."""
import inspect
import random
import sys
import json
import threading
import time

from . import env, observe, taps

env.use_repo()

PUBLIC = ["outcome_type", "statements", "source", "target", "intermediate", "column_paths", "cyto_table", "cyto_column"]


def pub(rec):
    out = {"outcome_type": "ok" if rec["outcome"] == "ok" else rec["outcome"]["exc_type"]}
    for k in PUBLIC[1:]:
        out[k] = rec.get(k)
    if rec.get("anon_subquery_names") and out.get("column_paths"):
        out["column_paths"] = sorted(out["column_paths"])
    return out


def default_provider():
    from sqllineage.runner import LineageRunner

    return inspect.signature(LineageRunner.__init__).parameters["metadata_provider"].default


def _fresh_answer(md, table_str):
    from sqllineage.core.metadata.dummy import DummyMetaDataProvider
    from sqllineage.core.models import Table

    return [str(c) for c in DummyMetaDataProvider(dict(md or {})).get_table_columns(Table(table_str))]


def balance(rec, provider, md):
    """session-balance monitor evaluated at the return or raise of a run"""
    from sqllineage.core.models import Table

    bad = []
    pid = id(provider)
    evs = [e for e in rec.get("session", []) if e["prov"] == pid]
    regs = [i for i, e in enumerate(evs) if e["op"] == "register"]
    deregs = [i for i, e in enumerate(evs) if e["op"] == "deregister"]
    if regs and (not deregs or max(deregs) < max(regs)):
        bad.append({"what": "register without later deregister", "events": [(e["op"], e.get("table")) for e in evs][-8:]})
    enters = sum(1 for e in evs if e["op"] == "session_enter")
    exits = sum(1 for e in evs if e["op"] == "session_exit")
    if enters != exits:
        bad.append({"what": "session enter/exit unbalanced", "enter": enters, "exit": exits})
    tables = sorted({e["table"] for e in evs if e["op"] == "register"})
    st = taps.state()
    was = st["active"]
    st["active"] = False
    try:
        for t in tables:
            try:
                got = [str(c) for c in provider.get_table_columns(Table(t))]
            except Exception as e:
                got = "EXC:" + type(e).__name__
            want = _fresh_answer(md, t)
            if got != want:
                bad.append({"what": "provider remembers a table learned during the run", "table": t, "answers": got, "fresh_provider_answers": want})
    finally:
        st["active"] = was
    left = getattr(provider, "_session_metadata", None)
    return bad, len(tables), (len(left) if isinstance(left, dict) else None)


def make(kind, md):
    from sqllineage.core.metadata.dummy import DummyMetaDataProvider

    if kind == "default":
        return default_provider()
    return DummyMetaDataProvider(dict(md) if md is not None else None)


def run_history(arg):
    """arg: runs=[case...], B=case, sharing in default|shared|fresh, metadata
    -> per-run balance findings, B's public record, counters"""
    md = arg.get("metadata")
    sharing = arg["sharing"]
    shared = make("default" if sharing == "default" else "dummy", md) if sharing != "fresh" else None
    out = {"balance": [], "runs": [], "registered_tables": 0, "session_events": 0}
    for case in arg["runs"] + [arg["B"]]:
        c = dict(case)
        c["want"] = []
        if case.get("provider") == "faulty" and sharing == "shared":
            # the shared provider's own j-th lookup raises; disarmed afterwards, the same object serves later runs
            prov = shared_faulty(shared, case.get("fail_at"))
        elif case.get("provider") == "faulty" and sharing == "fresh":
            prov = observe.FaultyProvider(dict(md or {}), case.get("fail_at"))
        else:
            prov = shared if shared is not None else make("dummy", md)
        if sharing == "default":
            c.pop("metadata", None)
        rec = observe.run_case(c, provider=prov)
        disarm(prov)
        bad, ntab, left = balance(rec, prov, md if sharing != "default" else None)
        out["registered_tables"] += ntab
        out["session_events"] += len(rec.get("session", []))
        for b in bad:
            b["after_run"] = case["sql"][:200]
            out["balance"].append(b)
        out["runs"].append({"outcome": "ok" if rec["outcome"] == "ok" else rec["outcome"]["exc_type"], "session_left": left,
                            "lookups": getattr(prov, "lookups", None)})
    out["B"] = pub(rec)
    return out


def shared_faulty(shared, fail_at):
    """arm a fault on the shared provider itself (its j-th underlying lookup raises)"""
    orig = type(shared)._get_table_columns
    state = {"n": 0}

    def faulty(schema, table, **kw):
        state["n"] += 1
        if fail_at is not None and state["n"] == fail_at:
            raise observe.InjectedLookupFault(f"lookup #{state['n']}")
        return orig(shared, schema, table, **kw)

    shared._get_table_columns = faulty
    shared._verif_state = state
    return shared


def disarm(prov):
    if "_get_table_columns" in getattr(prov, "__dict__", {}):
        st = prov.__dict__.pop("_verif_state", None)
        del prov.__dict__["_get_table_columns"]
        if st is not None:
            prov.lookups = st["n"]
    if hasattr(prov, "fail_at"):
        prov.fail_at = None


def fresh(case):
    c = dict(case)
    c["want"] = []
    return pub(observe.run_case(c))


# ------------------------------------------------------------------ line failpoints
TOOL = 5


class InjectedFault(Exception):
    pass


_fp = {"armed": False, "count": 0, "at": None, "sites": set(), "thread": None, "fired": None, "yield_p": 0.0, "rnd": None,
       "yields": 0, "handoff_sites": set()}
_NO_FAULT_FUNCS = {"__exit__", "deregister_session_metadata"}
_repo_prefix = env.REPO.rstrip("/") + "/sqllineage/"


def _on_line(code, lineno):
    if not code.co_filename.startswith(_repo_prefix):
        return sys.monitoring.DISABLE
    if not _fp["armed"]:
        return None
    if _fp["yield_p"]:
        # thread stress mode: seeded yield injection
        if _fp["rnd"].random() < _fp["yield_p"]:
            _fp["yields"] += 1
            _fp["handoff_sites"].add((code.co_name, lineno))
            time.sleep(0)
        return None
    if threading.get_ident() != _fp["thread"]:
        return None
    if taps.state()["work"] <= 0 or code.co_name in _NO_FAULT_FUNCS:
        return None
    _fp["count"] += 1
    if _fp["at"] is not None and _fp["count"] == _fp["at"]:
        _fp["fired"] = (code.co_filename[len(_repo_prefix):], code.co_name, lineno)
        _fp["sites"].add(_fp["fired"])
        raise InjectedFault(f"line event #{_fp['count']} at {code.co_name}:{lineno}")
    return None


def _install_monitor():
    mon = sys.monitoring
    try:
        mon.use_tool_id(TOOL, "verif-c12")
    except ValueError:
        pass
    mon.register_callback(TOOL, mon.events.LINE, _on_line)
    mon.set_events(TOOL, mon.events.LINE)


def _uninstall_monitor():
    mon = sys.monitoring
    mon.set_events(TOOL, 0)
    mon.restart_events()


def failpoints(arg):
    """arg: case, metadata, points: 'all' | [n...] | {'sample': k, 'seed': s}
    Runs the script fault-free (counting line events inside the run's work), then once per chosen n with an
    InjectedFault raised at the n-th event; after each: session balance, then a re-run on the same provider."""
    md = arg.get("metadata")
    case = dict(arg["case"])
    case["want"] = []
    _install_monitor()
    out = {"points_total": 0, "points_run": 0, "findings": [], "fired_sites": 0, "swallowed": 0, "raised": 0, "registered_tables": 0}
    try:
        prov = make("dummy", md)
        _fp.update(armed=True, count=0, at=None, thread=threading.get_ident(), fired=None, yield_p=0.0)
        ref = observe.run_case(case, provider=prov)
        _fp["armed"] = False
        total = _fp["count"]
        out["points_total"] = total
        refpub = pub(ref)
        pts = arg.get("points", "all")
        if pts == "all":
            pts = list(range(1, total + 1))
        elif isinstance(pts, dict):
            rnd = random.Random(pts["seed"])
            pts = sorted(rnd.sample(range(1, total + 1), min(pts["sample"], total)))
        for n in pts:
            prov = make("dummy", md)
            _fp.update(armed=True, count=0, at=n, fired=None)
            rec = observe.run_case(case, provider=prov)
            _fp["armed"] = False
            out["points_run"] += 1
            if _fp["fired"] is None:
                continue
            if rec["outcome"] == "ok":
                out["swallowed"] += 1
            else:
                out["raised"] += 1
            bad, ntab, left = balance(rec, prov, md)
            out["registered_tables"] += ntab
            for b in bad:
                b["fault"] = {"n": n, "site": _fp["fired"]}
                out["findings"].append(b)
            again = pub(observe.run_case(case, provider=prov))
            if again != refpub:
                out["findings"].append({"what": "re-run on the same provider after an injected fault differs from the fault-free run",
                                        "fault": {"n": n, "site": _fp["fired"]}, "fields": [k for k in refpub if refpub[k] != again[k]]})
        out["fired_sites"] = len(_fp["sites"])
    finally:
        _fp["armed"] = False
        _uninstall_monitor()
    out["findings"] = out["findings"][:20]
    return out


# ------------------------------------------------------------------ thread monitor
def threads(arg):
    """arg: cases=[case...] (each with its own config/metadata), nthreads, seed, yield_p
    Every thread has its own provider and its own scoped config; records are returned for comparison with
    the sequential fresh-process records."""
    cases = arg["cases"]
    n = arg.get("nthreads", 16)
    rnd = random.Random(arg.get("seed", 0))
    order = list(range(len(cases)))
    rnd.shuffle(order)
    results = [None] * len(cases)
    errors = []
    old = sys.getswitchinterval()
    sys.setswitchinterval(1e-5)
    _install_monitor()
    _fp.update(armed=True, yield_p=arg.get("yield_p", 0.05), rnd=random.Random(arg.get("seed", 0) + 1), yields=0, handoff_sites=set())
    start = threading.Barrier(n)

    leaks = []

    def work(tid):
        try:
            start.wait(timeout=60)
            provs = {}  # this thread's own providers, one per catalog, reused for all of the thread's runs (no provider is shared between threads)
            for j in order[tid::n]:
                c = dict(cases[j])
                c["want"] = []
                prov = None
                if c.get("metadata") is not None and c.get("provider", "dummy") == "dummy":
                    key = json.dumps(c["metadata"], sort_keys=True)
                    prov = provs.get(key)
                    if prov is None:
                        prov = provs[key] = observe.make_provider(c)
                results[j] = pub(observe.run_case(c, provider=prov))
                if prov is not None:
                    left = dict(getattr(prov, "_session_metadata", {}))
                    balance[0] += 1
                    if left:
                        leaks.append({"case_index": j, "thread": tid, "session_store_after_run": {str(k): [str(x) for x in v] for k, v in left.items()}})
        except Exception as e:  # harness error
            errors.append(repr(e))

    balance = [0]

    ths = [threading.Thread(target=work, args=(i,)) for i in range(n)]
    try:
        for t in ths:
            t.start()
        for t in ths:
            t.join(timeout=600)
    finally:
        _fp.update(armed=False, yield_p=0.0)
        _uninstall_monitor()
        sys.setswitchinterval(old)
    return {"records": results, "errors": errors, "yields": _fp["yields"], "handoff_sites": len(_fp["handoff_sites"]), "leaks": leaks, "balance_checks": balance[0],
            "alive": sum(1 for t in ths if t.is_alive())}


def overlap(arg):
    """Two (or three) runs on ONE provider object in different threads whose sessions overlap in a prescribed order - nested (A enters, B enters,
    B ends, A ends), crossing (A enters and analyses, B enters, A ends, B ends), both entered before either analyses - driven by gates at
    MetaDataSession.__enter__/__exit__ (a turn-based schedule, no timing). What the overlapping runs themselves report is NOT judged (they share
    a provider, which the property leaves open); judged is what the property states for every ending: once all runs have ended the provider
    answers for every table learned meanwhile exactly as a fresh provider, and a following run on it equals that run on a fresh provider.
    arg: scripts{name: sql}, order [..'A.enter','A.at_exit','B.enter',..], after: sql, metadata"""
    import threading

    from sqllineage.core import metadata_provider as mp
    from sqllineage.core.models import Table

    md = arg.get("metadata") or {}
    prov = make("dummy", md)
    order = list(arg["order"])
    cv = threading.Condition()
    pos = [0]
    stuck = []

    def turn(point):
        with cv:
            if point not in order:
                return
            ok = cv.wait_for(lambda: pos[0] < len(order) and order[pos[0]] == point, timeout=60)
            if not ok:
                stuck.append(point)
                return
            pos[0] += 1
            cv.notify_all()

    o_enter, o_exit = mp.MetaDataSession.__enter__, mp.MetaDataSession.__exit__

    def g_enter(self):
        name = threading.current_thread().name
        if self.metadata_provider is prov and name in arg["scripts"]:
            turn(name + ".enter")
        return o_enter(self)

    def g_exit(self, *a):
        name = threading.current_thread().name
        if self.metadata_provider is prov and name in arg["scripts"]:
            turn(name + ".at_exit")
            turn(name + ".exit")
        return o_exit(self, *a)

    outcomes, learned = {}, set()
    o_reg = mp.MetaDataProvider.register_session_metadata

    def g_reg(self, table, columns):
        if self is prov:
            learned.add(str(table))
        return o_reg(self, table, columns)

    def work(name, sql):
        try:
            rec = observe.run_case({"sql": sql, "dialect": arg.get("dialect", "ansi"), "want": []}, provider=prov)
            outcomes[name] = "ok" if rec["outcome"] == "ok" else rec["outcome"]["exc_type"]
        except Exception as e:
            outcomes[name] = "HARNESS:" + repr(e)

    mp.MetaDataSession.__enter__, mp.MetaDataSession.__exit__, mp.MetaDataProvider.register_session_metadata = g_enter, g_exit, g_reg
    try:
        ths = [threading.Thread(target=work, args=(n, s), name=n) for n, s in arg["scripts"].items()]
        for t in ths:
            t.start()
        for t in ths:
            t.join(timeout=120)
        alive = [t.name for t in ths if t.is_alive()]
    finally:
        mp.MetaDataSession.__enter__, mp.MetaDataSession.__exit__, mp.MetaDataProvider.register_session_metadata = o_enter, o_exit, o_reg
    out = {"outcomes": outcomes, "schedule_completed": pos[0] == len(order) and not stuck and not alive, "stuck": stuck, "alive": alive, "learned": sorted(learned), "bad": []}
    if not out["schedule_completed"]:
        return out
    for t in sorted(learned):
        try:
            got = [str(c) for c in prov.get_table_columns(Table(t))]
        except Exception as e:
            got = "EXC:" + type(e).__name__
        want = _fresh_answer(md, t)
        if got != want:
            out["bad"].append({"what": "provider remembers a table learned during an ended run", "table": t, "answers": got, "fresh_provider_answers": want})
    after = {"sql": arg["after"], "dialect": arg.get("dialect", "ansi"), "want": []}
    out["after_reused"] = pub(observe.run_case(dict(after), provider=prov))
    out["after_fresh"] = pub(observe.run_case(dict(after), provider=make("dummy", md)))
    return out
