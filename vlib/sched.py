"""C15 worker: controlled scheduler for the configuration singleton.
Real threading.Threads run small programs over the real config object; every step (and, optionally, chosen
line events inside config.py via sys.monitoring) is a gate at which the thread hands control back to the
scheduler, so exactly one chosen interleaving is executed per run.  A per-thread sequential model predicts
every read and every accept/reject outcome; the oracle is evaluated on each step's observed result.
Run as: python -m vlib.sched <json-arg>; prints one JSON line."""
import hashlib
import itertools
import json
import os
import random
import sys
import threading

from . import env

KEYS = {"DIRECTORY": str, "DEFAULT_SCHEMA": str, "TSQL_NO_SEMICOLON": bool, "LATERAL_COLUMN_ALIAS_REFERENCE": bool}
DS, TS, LC, DIR = "DEFAULT_SCHEMA", "TSQL_NO_SEMICOLON", "LATERAL_COLUMN_ALIAS_REFERENCE", "DIRECTORY"

# programs: every one leaves the thread outside any scope when it ends (as `with` guarantees)
CATALOG = [
    [["open", [[DS, "a"]]], ["read", DS], ["close"], ["read", DS]],
    [["open", [[DS, "b"], [TS, True]]], ["read", TS], ["raise"], ["read", TS]],
    [["read", DS], ["read", LC]],
    [["open_bad", [[DS, "x"], ["NOPE", 1]]], ["read", DS]],
    [["open_bad", [["NOPE", 1], [DS, "x"]]], ["read", DS]],
    [["open", [[DS, "c"]]], ["open", [[DS, "d"]]], ["read", DS], ["close"]],
    [["open", [[LC, "yes"]]], ["read", LC], ["close"], ["read", LC]],
    [["open", [[TS, 0]]], ["read", TS], ["close"]],
    [["assign", DS, "z"], ["read", DS]],
    [["open", [[DS, ""]]], ["read", DS], ["close"]],
    [["open", [[DS, "e"]]], ["open_bad", [[TS, 1], ["NOPE", 2]]], ["read", TS], ["close"]],
    [["open", [[DS, 123]]], ["read", DS], ["close"]],
    [["open", [[DS, "f"]]], ["close"], ["open", [[DS, "g"]]], ["close"]],
    [["open", [[DIR, "/x"]]], ["read", DIR], ["raise"]],
    [["open", [[DS, "h"]]], ["open", [[TS, True]]], ["read", TS], ["close"]],
    [["open", [[TS, "off"], [LC, 1]]], ["read", LC], ["read", TS], ["close"]],
    [["open", [[DS, "i"]]], ["raise"], ["read", DS]],
    [["open_bad", [[LC, True], ["NOPE", 0]]], ["read", LC]],
    [["open", [[DS, "j"]]], ["assign", DS, "k"], ["read", DS], ["close"]],
    [["read", TS], ["open", [[TS, "true"]]], ["read", TS], ["close"]],
    # a later scope that does not mention a key set by an earlier, closed scope must see the base value for it
    [["open", [[DS, "m"]]], ["close"], ["open", [[TS, True]]], ["read", DS], ["close"]],
    [["open", [[LC, True]]], ["raise"], ["open", [[DS, "n"]]], ["read", LC], ["close"]],
    # a scope that overrides nothing is a scope all the same: it closes, and later scopes on the thread (or on a thread reusing the ident) open
    [["open", []], ["read", DS], ["close"], ["open", [[DS, "p"]]], ["read", DS], ["close"]],
    [["open", []], ["raise"], ["open", [[TS, True]]], ["read", TS], ["close"], ["read", TS]],
]


def coerce(v, ty):
    if ty is bool:
        try:
            return int(v) != 0
        except ValueError:
            return v.lower().strip() in ("true", "on", "ok", "y", "yes", "1")
    return str(v)


class Model:
    """per-thread sequential model: a thread sees only its own accepted scope"""

    def __init__(self, defaults, envvals):
        self.defaults = defaults
        self.env = envvals
        self.scope = None

    def base(self, key):
        if key in self.env:
            return coerce(self.env[key], KEYS[key])
        return self.defaults[key]

    def expect(self, step):
        op = step[0]
        if op == "call":
            kws = step[1]
            ok = all(k in KEYS for k, _ in kws) and self.scope is None
            return ("accept" if ok else "reject"), (dict((k, coerce(v, KEYS[k])) for k, v in kws) if ok else None)
        if op == "read":
            k = step[1]
            if self.scope is not None and k in self.scope:
                return "value", self.scope[k]
            return "value", self.base(k)
        if op in ("close", "raise"):
            return "exit", None
        if op == "assign":
            return "reject", None
        raise ValueError(op)


def expand(program):
    """ops -> steps; 'open' is two steps (call, enter) exactly as the with-statement performs them"""
    steps = []
    for op in program:
        if op[0] in ("open", "open_bad"):
            steps.append(["call", op[1]])
            steps.append(["enter"])
        else:
            steps.append(list(op))
    return steps


class GThread:
    def __init__(self, idx, steps, cfg, model, exc_cls, plan):
        self.idx = idx
        self.steps = steps
        self.cfg = cfg
        self.model = model
        self.exc_cls = exc_cls
        self.go = threading.Semaphore(0)
        self.back = threading.Semaphore(0)
        self.finished = False
        self.line_count = 0
        self.plan = plan or set()
        self.log = []
        self.bad = []
        self.trace = []
        self.ident = None
        self.thread = threading.Thread(target=self.body, daemon=True)
        self.harness_error = None

    def gate(self, what):
        self.trace.append(what)
        self.back.release()
        self.go.acquire()

    def body(self):
        _tl.g = self
        self.ident = threading.get_ident()
        self.go.acquire()
        try:
            self.run_steps()
        except BaseException as e:  # harness bug, must surface
            self.harness_error = repr(e)
        self.finished = True
        _tl.g = None
        self.back.release()

    def run_steps(self):
        pending = None  # accepted-by-model scope awaiting enter
        call_raised = False
        mgr = None
        for i, st in enumerate(self.steps):
            if i:
                self.gate(("step", i))
            op = st[0]
            if op == "call":
                kind, scope = self.model.expect(st)
                try:
                    mgr = self.cfg(**dict((k, v) for k, v in st[1]))
                    obs = "returned"
                    call_raised = False
                except self.exc_cls:
                    obs = "ConfigException"
                    call_raised = True
                except Exception as e:
                    obs = "EXC:" + type(e).__name__
                    call_raised = True
                pending = (kind, scope)
                self.log.append([self.idx, "call", st[1], obs])
                if kind == "accept" and obs != "returned":
                    self.bad.append({"step": i, "op": st, "expected": "accepted", "observed": obs})
                if obs.startswith("EXC:"):
                    self.bad.append({"step": i, "op": st, "expected": "ConfigException or return", "observed": obs})
            elif op == "enter":
                kind, scope = pending
                if call_raised:
                    # the with-statement never reaches __enter__; a rejection at call time is a rejection
                    if kind == "accept":
                        pass  # already reported
                    self.log.append([self.idx, "enter", "skipped"])
                    continue
                try:
                    mgr.__enter__()
                    obs = "entered"
                except self.exc_cls:
                    obs = "ConfigException"
                except Exception as e:
                    obs = "EXC:" + type(e).__name__
                self.log.append([self.idx, "enter", obs])
                if kind == "accept":
                    if obs != "entered":
                        self.bad.append({"step": i, "op": st, "expected": "entered", "observed": obs})
                    else:
                        self.model.scope = scope
                else:
                    if obs == "entered":
                        self.bad.append({"step": i, "op": st, "expected": "rejected (ConfigException)", "observed": "accepted"})
                        # keep following the implementation so later steps are judged against what a user would expect
                    elif obs != "ConfigException":
                        self.bad.append({"step": i, "op": st, "expected": "ConfigException", "observed": obs})
            elif op == "read":
                _, want = self.model.expect(st)
                try:
                    got = getattr(self.cfg, st[1])
                except Exception as e:
                    got = "EXC:" + type(e).__name__
                self.log.append([self.idx, "read", st[1], got])
                if got != want or type(got) is not type(want):
                    self.bad.append({"step": i, "op": st, "expected": want, "observed": got,
                                     "in_scope": self.model.scope is not None})
            elif op in ("close", "raise"):
                try:
                    if op == "close":
                        self.cfg.__exit__(None, None, None)
                    else:
                        e = RuntimeError("body failed")
                        self.cfg.__exit__(RuntimeError, e, None)
                    obs = "exited"
                except Exception as e:
                    obs = "EXC:" + type(e).__name__
                    self.bad.append({"step": i, "op": st, "expected": "exit", "observed": obs})
                self.log.append([self.idx, op, obs])
                self.model.scope = None
            elif op == "assign":
                try:
                    setattr(self.cfg, st[1], st[2])
                    obs = "assigned"
                except self.exc_cls:
                    obs = "ConfigException"
                except Exception as e:
                    obs = "EXC:" + type(e).__name__
                self.log.append([self.idx, "assign", st[1], obs])
                if obs != "ConfigException":
                    self.bad.append({"step": i, "op": st, "expected": "ConfigException", "observed": obs})


_tl = threading.local()
TOOL = 4
_line_hits = {"n": 0, "sites": set()}


def on_line(code, lineno):
    g = getattr(_tl, "g", None)
    if g is None:
        return None
    g.line_count += 1
    _line_hits["n"] += 1
    _line_hits["sites"].add((code.co_name, lineno))
    if g.line_count in g.plan:
        g.gate(("line", code.co_name, lineno))
    return None


def install_line_gates(cfg_cls):
    mon = sys.monitoring
    try:
        mon.use_tool_id(TOOL, "verif-c15")
    except ValueError:
        pass
    mon.register_callback(TOOL, mon.events.LINE, on_line)
    n = 0
    for name, obj in vars(cfg_cls).items():
        fn = getattr(obj, "__func__", obj)
        code = getattr(fn, "__code__", None)
        if code is not None:
            mon.set_local_events(TOOL, code, mon.events.LINE)
            n += 1
    return n


def run_schedule(cfg_cls, exc_cls, programs, order, defaults, envvals, plans=None, rnd=None, phases=None):
    """order: list of thread indices (op-level interleaving), or None => random runnable choice (needed with line plans).
    phases: optional list of lists of thread indices; threads of phase k+1 start only after phase k joined (ident reuse)."""
    cfg = cfg_cls()
    threads = [GThread(i, expand(p), cfg, Model(defaults, envvals), exc_cls, (plans or {}).get(i)) for i, p in enumerate(programs)]
    trace = []
    if phases is None:
        phases = [list(range(len(threads)))]
    idents = []
    oi = 0
    for ph in phases:
        for i in ph:
            threads[i].thread.start()
        live = [i for i in ph]
        while live:
            if order is not None and oi < len(order):
                t = order[oi]
                oi += 1
                if t not in live:
                    continue
            else:
                t = rnd.choice(live) if rnd else live[0]
            g = threads[t]
            g.go.release()
            if not g.back.acquire(timeout=20):
                return {"inconclusive": f"thread {t} did not report back"}
            trace.append((t, tuple(g.trace[-1]) if g.trace and not g.finished else ("end",)))
            if g.finished:
                live.remove(t)
                g.thread.join(timeout=5)
        idents.append([threads[i].ident for i in ph])
    bad = []
    logs = []
    for g in threads:
        if g.harness_error:
            return {"inconclusive": "harness error " + g.harness_error}
        for b in g.bad:
            b = dict(b)
            b["thread"] = g.idx
            bad.append(b)
        logs.extend(g.log)
    reuse = 0
    seen = set()
    for ids in idents:
        reuse += sum(1 for i in ids if i in seen)
        seen.update(ids)
    return {"bad": bad, "trace": trace, "log": logs, "ident_reuse": reuse,
            "line_gates": sum(1 for _, w in trace if w and w[0] == "line")}


def interleavings(counts):
    """all distinct orders of thread indices with counts[i] advances of thread i"""
    total = sum(counts)

    def rec(rem, prefix):
        if len(prefix) == total:
            yield list(prefix)
            return
        for i, r in enumerate(rem):
            if r:
                rem[i] -= 1
                prefix.append(i)
                yield from rec(rem, prefix)
                prefix.pop()
                rem[i] += 1

    yield from rec(list(counts), [])


def n_interleavings(counts):
    import math

    n = math.factorial(sum(counts))
    for c in counts:
        n //= math.factorial(c)
    return n


def main():
    arg = json.loads(sys.argv[1])
    for k, v in (arg.get("env") or {}).items():
        os.environ["SQLLINEAGE_" + k] = v
    env.use_repo()
    from sqllineage import config as cfgmod
    from sqllineage.exceptions import ConfigException

    cfg_cls = type(cfgmod.SQLLineageConfig)
    defaults = {k: cfg_cls.config[k][1] for k in KEYS}
    envvals = dict(arg.get("env") or {})
    rnd = random.Random(arg.get("seed", 0))
    res = {"schedules": 0, "distinct_interleavings": 0, "violations": [], "violations_total": 0, "steps": 0, "reads": 0,
           "line_gates": 0, "ident_reuse": 0, "inconclusive": [], "line_events": 0, "line_sites": 0, "program_tuples": 0,
           "exhaustive_tuples": 0}
    seen = set()

    def account(programs, r, kind, order=None, phases=None, plans=None):
        res["schedules"] += 1
        if "inconclusive" in r:
            res["inconclusive"].append(r["inconclusive"])
            return
        h = hashlib.sha1(repr((programs, r["trace"])).encode()).hexdigest()
        if h not in seen:
            seen.add(h)
        res["steps"] += len(r["log"])
        res["reads"] += sum(1 for l in r["log"] if l[1] == "read")
        res["line_gates"] += r["line_gates"]
        res["ident_reuse"] += r["ident_reuse"]
        if r["bad"]:
            res["violations_total"] += 1
            if len(res["violations"]) < 30:
                res["violations"].append({"kind": kind, "programs": programs, "order": order, "phases": phases,
                                          "plans": {str(k): sorted(v) for k, v in (plans or {}).items()},
                                          "env": envvals, "bad": r["bad"][:4], "log": r["log"], "trace": [list(map(str, t)) for t in r["trace"][:60]]})

    mode = arg["mode"]
    tuples = arg["tuples"]  # list of lists of catalog indices
    if mode == "exhaustive":
        for tup in tuples:
            programs = [CATALOG[i] for i in tup]
            counts = [len(expand(p)) for p in programs]
            res["program_tuples"] += 1
            res["exhaustive_tuples"] += 1
            cap = arg.get("max_interleavings")
            if cap and n_interleavings(counts) > cap:
                res["exhaustive_tuples"] -= 1
                res["sampled_tuples"] = res.get("sampled_tuples", 0) + 1
                base = [i for i, c in enumerate(counts) for _ in range(c)]
                orders = []
                for _ in range(cap):
                    o = list(base)
                    rnd.shuffle(o)
                    orders.append(o)
            else:
                orders = interleavings(counts)
            for order in orders:
                r = run_schedule(cfg_cls, ConfigException, programs, order, defaults, envvals)
                account(programs, r, "op-level", order=order)
    elif mode == "reuse":
        for tup in tuples:
            programs = [CATALOG[i] for i in tup]
            res["program_tuples"] += 1
            phases = [[i] for i in range(len(programs))]
            r = run_schedule(cfg_cls, ConfigException, programs, None, defaults, envvals, phases=phases)
            account(programs, r, "ident-reuse", phases=phases)
    elif mode == "lines":
        install_line_gates(cfg_cls)
        for tup in tuples:
            programs = [CATALOG[i] for i in tup]
            res["program_tuples"] += 1
            for _ in range(arg.get("per_tuple", 4)):
                # pre-emption bound 2: at most two line gates, in one or two threads
                plans = {}
                for _k in range(2):
                    plans.setdefault(rnd.randrange(len(programs)), set()).add(rnd.randrange(1, 40))
                r = run_schedule(cfg_cls, ConfigException, programs, None, defaults, envvals, plans=plans, rnd=rnd)
                account(programs, r, "line-level", plans=plans)
        res["line_events"] = _line_hits["n"]
        res["line_sites"] = len(_line_hits["sites"])
    res["distinct_interleavings"] = len(seen)
    res["sample"] = None
    sys.stdout.write(json.dumps(res, default=str) + "\n")


if __name__ == "__main__":
    main()
