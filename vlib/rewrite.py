"""C07 worker ops: token-level layout/comment/case/quoting rewrites driven by sqlfluff's lexer+parser for the
dialect (a dependency, used only to know where token boundaries and identifier tokens are), and the
metamorphic comparison original vs rewrite."""
import random
import re
import warnings

from . import env, observe

env.use_repo()

_LINT = {}
GAP = ("whitespace", "newline")
COMMENTS = ("comment", "inline_comment", "block_comment")
QUOTE = {"mysql": "`", "mariadb": "`", "hive": "`", "sparksql": "`", "databricks": "`", "bigquery": "`", "clickhouse": "`", "tsql": "[",
         "athena": '"', "soql": None, "sqlite": '"'}


def leaves(sql, dialect):
    from sqlfluff.core import FluffConfig, Linter, SQLLexError, SQLParseError

    d = "ansi" if dialect == "non-validating" else dialect
    lt = _LINT.get(d)
    if lt is None:
        lt = _LINT[d] = Linter(config=FluffConfig(overrides={"dialect": d}))
    with warnings.catch_warnings():
        warnings.simplefilter("ignore")
        parsed = lt.parse_string(sql)
    if [v for v in parsed.violations if isinstance(v, (SQLLexError, SQLParseError))] or parsed.tree is None:
        return None
    out = []
    for seg in parsed.tree.raw_segments:
        if seg.raw == "" or seg.is_meta:
            continue
        out.append([seg.raw, seg.get_type()])
    if "".join(r for r, _ in out) != sql:
        return None
    return out


def _filler(kind, rnd, after_line_comment):
    if kind == "ws":
        f = rnd.choice(["\n", "\n    ", "  ", "\t", " \n\t ", "\n\n"])
    elif kind == "block":
        f = rnd.choice([" /* c */ ", "/* a;b */", " /* it's \"q\" */ ", "\n/* multi\n line; */\n", "/**/"])
    elif kind == "line":
        f = rnd.choice([" -- c\n", " -- a;b 'x\n  ", "\n-- only\n"])
    elif kind == "hash":
        f = rnd.choice([" # c\n", " # a;b 'x\n  ", "\n# only\n"])
    elif kind == "hash_glued":
        f = rnd.choice([" #c\n", "\n#only;\n"])  # no blank after the hash: a comment for the dialect's lexer, not for sqlparse's (KF-13)
    else:
        raise ValueError(kind)
    if after_line_comment and not f.startswith("\n"):
        f = "\n" + f
    return f


_HASH = {}


def hash_comment_dialect(dialect):
    """does this dialect's own lexer read '# ...' as a line comment? (asked of sqlfluff, a dependency; the legacy analyzer is not asked)"""
    if dialect not in _HASH:
        ok = False
        if dialect != "non-validating":
            try:
                from sqlfluff.core import FluffConfig, Linter
                p = Linter(config=FluffConfig(overrides={"dialect": dialect})).parse_string("select a # c\nfrom t\n")
                ok = not p.violations and p.tree is not None and any("comment" in x.get_type() for x in p.tree.raw_segments)
            except Exception:
                ok = False
        _HASH[dialect] = ok
    return _HASH[dialect]


def gaps(lv):
    """indices (start, end) of maximal whitespace runs"""
    out = []
    i = 0
    while i < len(lv):
        if lv[i][1] in GAP:
            j = i
            while j < len(lv) and lv[j][1] in GAP:
                j += 1
            out.append((i, j))
            i = j
        else:
            i += 1
    return out


def insertion_points(lv):
    """positions k meaning 'between lv[k-1] and lv[k]' where a comment may be inserted without touching a dotted name
    or separating a function name from its bracket: after ',' and '(' and before ')', when no gap is there already"""
    pts = []
    for k in range(1, len(lv)):
        a, b = lv[k - 1], lv[k]
        if a[1] in GAP or b[1] in GAP or a[1] in COMMENTS or b[1] in COMMENTS:
            continue
        if a[1] in ("comma", "start_bracket") or b[1] == "end_bracket":
            if a[1] == "dot" or b[1] == "dot":
                continue
            pts.append(k)
    return pts


def rewrite(lv, dialect, spec, rnd):
    """spec: {"kind": ..., "at": optional single boundary index}; returns new text or None when not applicable"""
    lv = [list(x) for x in lv]
    kind = spec["kind"]
    if kind in ("hash", "ins_hash", "hash_glued") and not hash_comment_dialect(dialect):
        return None
    if kind in ("ws", "block", "line", "hash", "hash_glued"):
        gs = gaps(lv)
        if not gs:
            return None
        chosen = gs if spec.get("at") is None else [gs[spec["at"] % len(gs)]]
        if spec.get("at") is None and spec.get("p", 1.0) < 1.0:
            chosen = [g for g in gs if rnd.random() < spec["p"]] or [rnd.choice(gs)]
        for (i, j) in chosen:
            prev_line_comment = i > 0 and lv[i - 1][1] in COMMENTS and lv[i - 1][0].lstrip().startswith(("--", "#"))
            if prev_line_comment and "\n" not in "".join(x[0] for x in lv[i:j]):
                continue
            f = _filler(kind, rnd, prev_line_comment)
            lv[i][0] = f
            for k in range(i + 1, j):
                lv[k][0] = ""
        return "".join(x[0] for x in lv)
    if kind in ("ins_block", "ins_line", "ins_hash"):
        pts = insertion_points(lv)
        if not pts:
            return None
        chosen = pts if spec.get("at") is None else [pts[spec["at"] % len(pts)]]
        if spec.get("at") is None:
            chosen = [p for p in pts if rnd.random() < spec.get("p", 0.4)] or [rnd.choice(pts)]
        out = []
        cs = set(chosen)
        for k, x in enumerate(lv):
            if k in cs:
                out.append(_filler({"ins_block": "block", "ins_line": "line", "ins_hash": "hash"}[kind], rnd, False))
            out.append(x[0])
        return "".join(out)
    if kind in ("upper", "lower", "swap", "mixed"):
        n = 0
        targets = [k for k, x in enumerate(lv) if x[1] in ("keyword", "naked_identifier", "function_name_identifier", "data_type_identifier", "word", "binary_operator", "null_literal", "boolean_literal")
                   and re.fullmatch(r"[A-Za-z_][A-Za-z_0-9]*", x[0])]
        if spec.get("at") is not None and targets:
            targets = [targets[spec["at"] % len(targets)]]
        for k in targets:
            x = lv[k]
            if kind == "mixed":
                new = "".join(ch.upper() if (i + len(x[0])) % 2 == 0 else ch.lower() for i, ch in enumerate(x[0]))
            else:
                new = x[0].upper() if kind == "upper" else x[0].lower() if kind == "lower" else x[0].swapcase()
            if new != x[0]:
                x[0] = new
                n += 1
        return "".join(x[0] for x in lv) if n else None
    if kind == "quote":
        q = QUOTE.get("ansi" if dialect == "non-validating" else dialect, '"')
        if q is None:
            return None
        n = 0
        targets = [k for k, x in enumerate(lv) if x[1] == "naked_identifier" and re.fullmatch(r"[a-z_][a-z_0-9]*", x[0])]
        if spec.get("at") is not None and targets:
            targets = [targets[spec["at"] % len(targets)]]
        for k in targets:
            if spec.get("at") is None and rnd.random() > spec.get("p", 0.5):
                continue
            x = lv[k]
            x[0] = ("[" + x[0] + "]") if q == "[" else (q + x[0] + q)
            n += 1
        return "".join(x[0] for x in lv) if n else None
    if kind == "semicolons":
        # extra semicolons after every statement of the script (not only the last one), then after the end of the text
        extra = [";;", "; ;", ";\n;", ";;;", ";\n;\n", ";/* c */;", "; -- x\n;"]
        for x in lv:
            if x[1] == "statement_terminator" and x[0] == ";" and (spec.get("p") is None or rnd.random() < spec["p"]):
                x[0] = rnd.choice(extra)
        return "".join(x[0] for x in lv).rstrip() + rnd.choice([";", ";;", " ;\n;", ";\n", ""])
    raise ValueError(kind)


_SIMPLE = re.compile(r"^[\w<>.:|#$*\-/@ ]+$")


def norm_col(s):
    """expression-named columns follow the expression's text: compare them modulo layout, comments and letter case"""
    # an un-aliased sub-query is named after a hash of its text, which follows the layout: it is not a named column owner
    s = re.sub(r"subquery#[0-9a-f]{8}", "subquery#anon", s)
    t = re.sub(r"/\*.*?\*/", "", s, flags=re.S)
    t = re.sub(r"--[^\n]*", "", t)
    t = re.sub(r"#[^\n]*\n", "\n", t)
    t2 = re.sub(r"\s+", "", t)
    if _SIMPLE.match(s) and t2 == s:
        return s
    return re.sub(r"[\"`\[\]]", "", t2).lower()


def view(rec):
    if rec["outcome"] != "ok":
        return {"outcome": rec["outcome"]["exc_type"]}
    pairs = sorted({(norm_col(a), norm_col(b)) for a, b in rec.get("column_pairs", [])})
    return {"outcome": "ok", "source": rec["source"], "target": rec["target"], "intermediate": rec["intermediate"],
            "table_edges": rec["table_edges"], "column_pairs": [list(p) for p in pairs], "n_statements": len(rec.get("statements") or [])}


def counts(arg):
    """how many single boundaries each rewrite kind has for this statement (for the every-boundary thorough mode)"""
    lv = leaves(arg["sql"], arg["dialect"])
    if lv is None:
        return None
    return {"gaps": len(gaps(lv)), "ins": len(insertion_points(lv)),
            "words": len([1 for x in lv if x[1] in ("keyword", "naked_identifier", "function_name_identifier") and re.fullmatch(r"[A-Za-z_][A-Za-z_0-9]*", x[0])]),
            "idents": len([1 for x in lv if x[1] == "naked_identifier" and re.fullmatch(r"[a-z_][a-z_0-9]*", x[0])])}


_ORIG = {}


def run_pair(arg):
    """arg: sql, dialect, metadata, specs=[spec...], seed -> original view + per-spec rewritten text and view"""
    sql, dialect = arg["sql"], arg["dialect"]
    lv = leaves(sql, dialect)
    if lv is None:
        return {"skipped": "not lexable/parsable by sqlfluff under the rewriter's dialect"}
    key = (sql, dialect, repr(arg.get("metadata")))
    if key not in _ORIG:
        _ORIG[key] = view(observe.run_case({"sql": sql, "dialect": dialect, "metadata": arg.get("metadata"), "want": []}))
        if len(_ORIG) > 400:
            _ORIG.pop(next(iter(_ORIG)))
    orig = _ORIG[key]
    out = {"orig": orig, "rewrites": []}
    if orig["outcome"] != "ok":
        return out
    rnd = random.Random(arg.get("seed", 0))
    for spec in arg["specs"]:
        specs = spec if isinstance(spec, list) else [spec]
        text = sql
        applied = []
        cur = lv
        for sp in specs:
            t = rewrite(cur, dialect, sp, rnd)
            if t is None or t == text:
                continue
            text = t
            applied.append(sp)
            if len(specs) > 1 or sp["kind"] == "quote":
                prev = cur
                cur = leaves(text, dialect)
                if cur is None:
                    break
                if sp["kind"] == "quote":
                    qi = lambda lvs: sum(1 for x in lvs if x[1] == "quoted_identifier")
                    ni = lambda lvs: sum(1 for x in lvs if x[1] == "naked_identifier")
                    if qi(cur) - qi(prev) != ni(prev) - ni(cur) or qi(cur) <= qi(prev) or len(cur) != len(prev):
                        # under this dialect's grammar the quoted token is not an identifier (e.g. hive: `x` in a select list is a literal)
                        text = None
                        break
        if not applied or text is None:
            continue
        r = view(observe.run_case({"sql": text, "dialect": dialect, "metadata": arg.get("metadata"), "want": []}))
        item = {"spec": applied, "text": text, "view": r, "relex_failed": cur is None}
        if r["outcome"] != "ok" and dialect != "non-validating":
            from . import errors

            with warnings.catch_warnings():
                warnings.simplefilter("ignore")
                item["sqlfluff_accepts_rewrite"] = all(errors.sqlfluff_accepts(s, dialect) is not False for s in [text])
        out["rewrites"].append(item)
    return out
