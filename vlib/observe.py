"""Worker side: run one case against the real package and reduce it to a JSON observation record.
All oracles work on records, never on live objects (except the structural invariants of C06/C18,
which need the live graph and are therefore evaluated here and shipped as lists of findings)."""
import hashlib
import json
import os
import re
import sys
import traceback
import warnings

from . import env, taps

env.use_repo()
taps.install()

_SUBQ = re.compile(r"subquery_-?\d+")


def _exc_info(e):
    from sqllineage.exceptions import SQLLineageException

    tb = traceback.extract_tb(e.__traceback__)
    frames = []
    for fr in tb:
        fn = fr.filename.replace("\\", "/")
        if "/sqllineage/" in fn and "site-packages" not in fn:
            frames.append(["sqllineage/" + fn.split("/sqllineage/", 1)[1], fr.name])
        elif "site-packages/" in fn:
            frames.append(["dep:" + fn.split("site-packages/", 1)[1], fr.name])
    inner_sl = None
    for f in reversed(frames):
        if f[0].startswith("sqllineage/"):
            inner_sl = f
            break
    raising = frames[-1] if frames else None
    return {
        "exc_type": type(e).__name__,
        "exc_module": type(e).__module__,
        "is_library_exception": isinstance(e, SQLLineageException),
        "message": str(e)[:300],
        "inner_sqllineage": inner_sl,
        "raising": raising,
        "frames": frames[-12:],
    }


def make_provider(case):
    from sqllineage.core.metadata.dummy import DummyMetaDataProvider

    kind = case.get("provider", "dummy" if case.get("metadata") is not None else "default")
    md = case.get("metadata")
    if kind == "default":
        return None
    if kind == "dummy":
        return DummyMetaDataProvider(dict(md) if md is not None else None)
    if kind == "sqlalchemy":
        return make_sqlalchemy_provider(md or {}, case["scratch"])
    if kind == "faulty":
        return FaultyProvider(dict(md or {}), case.get("fail_at"))
    raise ValueError(kind)


def make_sqlalchemy_provider(md, scratch):
    """Bundled SQLAlchemy provider on a scratch sqlite database with one attached file per schema."""
    from sqlalchemy import Column as SAColumn, Integer, MetaData, Table as SATable, inspect, text
    from sqllineage.core.metadata.sqlalchemy import SQLAlchemyMetaDataProvider

    import tempfile

    scratch = tempfile.mkdtemp(dir=scratch)  # one fresh set of database files per provider: no leftovers from other cases
    p = SQLAlchemyMetaDataProvider("sqlite:///:memory:")
    meta = MetaData()
    for full, cols in md.items():
        schema, table = full.split(".")
        if schema not in ("main", "temp") and not inspect(p.engine).has_schema(schema):
            path = os.path.join(scratch, f"{schema}.db")
            with p.engine.connect() as conn:
                conn.execute(text(f"ATTACH DATABASE '{path}' AS '{schema}'"))
        SATable(table, meta, *[SAColumn(c, Integer) for c in cols], schema=schema)
    meta.create_all(bind=p.engine)
    return p


class InjectedLookupFault(Exception):
    pass


def FaultyProvider(md, fail_at):
    from sqllineage.core.metadata.dummy import DummyMetaDataProvider

    class _Faulty(DummyMetaDataProvider):
        def __init__(self, metadata, fail_at):
            super().__init__(metadata)
            self.fail_at = fail_at
            self.lookups = 0

        def _get_table_columns(self, schema, table, **kwargs):
            self.lookups += 1
            if self.fail_at is not None and self.lookups == self.fail_at:
                raise InjectedLookupFault(f"lookup #{self.lookups}")
            return super()._get_table_columns(schema, table, **kwargs)

    return _Faulty(md, fail_at)


def _canon_map(objs):
    from sqllineage.core.models import Column, SubQuery

    m = {}

    def see(o):
        if isinstance(o, SubQuery):
            if _SUBQ.fullmatch(o.alias or ""):
                m[o.alias] = "subquery#" + hashlib.sha1(o.query_raw.encode()).hexdigest()[:8]
        elif isinstance(o, Column):
            for p in o.parent_candidates:
                see(p)

    for o in objs:
        see(o)
    return m


def canon(rec, amap):
    if not amap:
        return rec
    s = json.dumps(rec)
    for k in sorted(amap, key=len, reverse=True):
        s = s.replace(k, amap[k])
    return _resort_candidates(json.loads(s))


def _resort_candidates(x):
    """'<a|b|subquery#..>.col': the tool sorts candidate owners by printed name; with anonymous names canonicalised the order is re-established"""
    if isinstance(x, str):
        if x.startswith("<") and "|" in x and "subquery#" in x and ">." in x:
            cands, _, col = x[1:].rpartition(">.")
            return "<" + "|".join(sorted(cands.split("|"))) + ">." + col
        return x
    if isinstance(x, list):
        return [_resort_candidates(y) for y in x]
    if isinstance(x, dict):
        return {k: _resort_candidates(v) for k, v in x.items()}
    return x


def _canon_cyto(items):
    nodes, edges = [], []
    for it in items:
        d = dict(it)
        if "source" in d and "target" in d:
            edges.append([d["source"], d["target"]])
        else:
            nodes.append(d)
    nodes.sort(key=lambda d: json.dumps(d, sort_keys=True))
    edges.sort()
    return {"nodes": nodes, "edges": edges}


ACCESSORS = ["statements", "source", "target", "intermediate", "columns", "cyto_table", "cyto_column", "summary"]
# every public accessor incl. the flag variants of get_column_lineage (used where call order/multiplicity matters)
ALL_ACCESSORS = ACCESSORS + ["columns_incl_subquery", "columns_no_subquery_cols"]


def run_case(case, provider=None):
    """case keys: sql, dialect, metadata, provider, silent, config{}, env{}, order[], want[], verbose
    provider: optional live provider object to use instead of building one from the case"""
    from sqllineage.config import SQLLineageConfig
    from sqllineage.runner import LineageRunner
    from sqllineage.utils.constant import LineageLevel

    want = set(case.get("want", []))
    old_env = {}
    for k, v in (case.get("env") or {}).items():
        old_env[k] = os.environ.get(k)
        os.environ[k] = v
    cfg = case.get("config") or {}
    rec = {"outcome": "ok"}
    st = taps.begin()
    ctx = None
    live = {}
    try:
        with warnings.catch_warnings(record=True) as wlist:
            warnings.simplefilter("always")
            try:
                if cfg:
                    ctx = SQLLineageConfig(**cfg)
                    ctx.__enter__()
                prov = provider if provider is not None else make_provider(case)
                kw = {}
                if prov is not None:
                    kw["metadata_provider"] = prov
                if case.get("silent"):
                    kw["silent_mode"] = True
                if case.get("verbose"):
                    kw["verbose"] = True
                if case.get("file_path"):
                    kw["file_path"] = case["file_path"]
                runner = LineageRunner(case["sql"], dialect=case.get("dialect", "ansi"), **kw)
                order = case.get("order") or ACCESSORS
                for acc in order:
                    if acc == "statements":
                        rec["statements"] = list(runner.statements())
                    elif acc == "source":
                        live["source"] = runner.source_tables
                        rec["source"] = [taps.dsdesc(t) for t in live["source"]]
                    elif acc == "target":
                        live["target"] = runner.target_tables
                        rec["target"] = [taps.dsdesc(t) for t in live["target"]]
                    elif acc == "intermediate":
                        live["intermediate"] = runner.intermediate_tables
                        rec["intermediate"] = [taps.dsdesc(t) for t in live["intermediate"]]
                    elif acc == "columns":
                        live["paths"] = runner.get_column_lineage()
                        rec["column_paths"] = [[taps.coldesc(c) for c in p] for p in live["paths"]]
                    elif acc == "columns_incl_subquery":
                        ps2 = runner.get_column_lineage(exclude_path_ending_in_subquery=False)
                        rec["column_paths_incl_subquery"] = [[taps.coldesc(c) for c in p] for p in ps2]
                        live.setdefault("paths_extra", []).extend(ps2)
                    elif acc == "columns_no_subquery_cols":
                        ps3 = runner.get_column_lineage(exclude_subquery_columns=True)
                        rec["column_paths_no_subquery_columns"] = [[taps.coldesc(c) for c in p] for p in ps3]
                        live.setdefault("paths_extra", []).extend(ps3)
                    elif acc == "cyto_table":
                        live["cyto_table"] = runner.to_cytoscape()
                        rec["cyto_table"] = [it["data"] for it in live["cyto_table"]]
                    elif acc == "cyto_column":
                        live["cyto_column"] = runner.to_cytoscape(LineageLevel.COLUMN)
                        rec["cyto_column"] = [it["data"] for it in live["cyto_column"]]
                    elif acc == "summary":
                        live["summary"] = str(runner)
                        rec["summary"] = live["summary"]
            except Exception as e:
                rec["outcome"] = _exc_info(e)
                if "after_error" in want and "runner" in locals():
                    # a caller that caught the error may go on asking the same runner: every later accessor answers or raises a library error
                    after = []
                    for name, fn in (("statements", lambda: runner.statements()), ("source", lambda: runner.source_tables), ("target", lambda: runner.target_tables),
                                     ("intermediate", lambda: runner.intermediate_tables), ("columns", lambda: runner.get_column_lineage()),
                                     ("cyto_table", lambda: runner.to_cytoscape()), ("summary", lambda: str(runner)), ("source_again", lambda: runner.source_tables)):
                        try:
                            fn()
                            after.append({"accessor": name, "result": "returned"})
                        except Exception as e2:
                            i2 = _exc_info(e2)
                            after.append({"accessor": name, "result": "raised", "exc_type": i2["exc_type"], "is_library_exception": i2["is_library_exception"], "message": i2["message"][:160]})
                    rec["after_error"] = after
            finally:
                if ctx is not None:
                    try:
                        ctx.__exit__(None, None, None)
                    except Exception:
                        pass
        rec["warnings"] = sorted({(w.category.__name__, str(w.message)[:80]) for w in wlist})
        rec["warnings"] = [list(x) for x in rec["warnings"]]
    finally:
        taps.end()
        for k, v in old_env.items():
            if v is None:
                os.environ.pop(k, None)
            else:
                os.environ[k] = v
    rec["per_statement"] = [{k: v for k, v in ev.items()} for ev in st["stmts"]]
    rec["session"] = [dict(ev) for ev in st["session"]]
    rec["dispatch"] = st["dispatch"][:50]
    rec["n_of"] = len(st["of"])
    holder = st["of"][-1]["holder"] if st["of"] else None
    objs = []
    if holder is not None:
        objs.extend(holder.graph.nodes)
    for h in st["holders"]:
        objs.extend(h.graph.nodes)
    for p in live.get("paths", []) + live.get("paths_extra", []):
        objs.extend(p)
    amap = _canon_map(objs)
    if "inv" in want and rec["outcome"] == "ok" and holder is not None:
        from . import invariants

        rec["inv"] = invariants.check_all(holder, st["holders"], live, rec)
        rec["inv_counts"] = invariants.LAST_COUNTS.copy()
    if "provider_after" in want and 'prov' in locals() and prov is not None:
        rec["session_after"] = dict(getattr(prov, "_session_metadata", {}))
    rec = canon(rec, amap)
    # derived, order-normalised views are built only after anonymous subquery names are canonical
    for k in ("cyto_table", "cyto_column"):
        if k in rec:
            rec[k] = _canon_cyto(rec[k])
    for k in ("column_paths_incl_subquery", "column_paths_no_subquery_columns"):
        if k in rec:
            rec[k] = sorted(rec[k])  # flag variants are compared as sets of paths (their order is the runner's, judged on column_paths)
    if "cyto_table" in rec:
        rec["table_edges"] = rec["cyto_table"]["edges"]
    if "column_paths" in rec:
        rec["column_pairs"] = [list(x) for x in sorted({(p[0], p[-1]) for p in rec["column_paths"]})]
        rec["anon_subquery_names"] = bool(amap)
    rec["taps_missing"] = list(taps.MISSING)
    return rec


def run_sequence(cases):
    """several runs one after the other in this same process (history-sensitive behaviour); returns their records in order"""
    return [run_case(c) for c in cases]


def run_sequence_same_provider(cases):
    """several different runs one after the other through one provider object built from the first case"""
    prov = make_provider(cases[0])
    return [run_case(c, provider=prov) for c in cases]


def run_same_provider(case):
    """the case analysed three times in a row through one and the same provider object (a provider is built once and reused)"""
    prov = make_provider(case)
    return [run_case(case, provider=prov) for _ in range(3)]


def ping(arg):
    import sqllineage

    return {"repo": env.REPO, "file": sqllineage.__file__, "hashseed": os.environ.get("PYTHONHASHSEED"),
            "missing": list(taps.MISSING), "py": sys.version.split()[0]}
