"""C17 worker: drives sqllineage.drawing.app (the WSGI callable) against a scratch tree with marker files.
Run as:  python -m vlib.webtree <json-arg>. SQLLINEAGE_DIRECTORY is pointed at the scratch root before the
package is imported; the second root setting goes through draw_lineage_graph(f=...) with the server start
stubbed out (root becomes the file's folder).  Prints one JSON result line on stdout.

Oracle (universal, per response): the body contains no content marker and no entry-name marker of any file
or directory that does not lie (after realpath) inside the applicable root - the SQL root for POST, the
static folder for GET - whatever the status code.  Inside requests are counted to guard against vacuity."""
import io
import itertools
import json
import os
import random
import sys
from pathlib import Path

from . import env

DIRS = ["root", "sub", "sib", "outside", "static", "js"]
FILES = ["in", "s", "sibf", "out", "bad", "index", "jsf", "secret"]


def tokens(rnd):
    t = {}
    for k in DIRS:
        t["d_" + k] = "%010x" % rnd.getrandbits(40)
    for k in FILES:
        t["n_" + k] = "%010x" % rnd.getrandbits(40)
        t["c_" + k] = "%010x" % rnd.getrandbits(40)
    return t


def layout(t):
    d = {
        "root": f"r{t['d_root']}",
        "sub": f"r{t['d_root']}/sub{t['d_sub']}",
        "sib": f"r{t['d_root']}_sib{t['d_sib']}",
        "outside": f"outside{t['d_outside']}",
        "static": f"static{t['d_static']}",
        "js": f"static{t['d_static']}/js{t['d_js']}",
    }
    f = {
        "in": (f"{d['root']}/in{t['n_in']}.sql", f"select * from mk{t['c_in']}"),
        "s": (f"{d['sub']}/s{t['n_s']}.sql", f"select * from mk{t['c_s']}"),
        "sibf": (f"{d['sib']}/sib{t['n_sibf']}.sql", f"select * from mk{t['c_sibf']}"),
        "out": (f"{d['outside']}/out{t['n_out']}.sql", f"select * from mk{t['c_out']}"),
        "bad": (f"{d['outside']}/bad{t['n_bad']}.sql", f"selec * frm mk{t['c_bad']} where"),
        "index": (f"{d['static']}/index.html", f"<html>mk{t['c_index']}</html>"),
        "jsf": (f"{d['js']}/a{t['n_jsf']}.js", f"// mk{t['c_jsf']}"),
        "secret": (f"secret{t['n_secret']}.txt", f"mk{t['c_secret']}"),
    }
    return d, f


def build_tree(base, t):
    d, f = layout(t)
    for rel in d.values():
        os.makedirs(os.path.join(base, rel), exist_ok=True)
    for rel, content in f.values():
        with open(os.path.join(base, rel), "w") as fh:
            fh.write(content)


def call(app, method, path, payload=None):
    status = {}

    def start_response(s, headers, exc_info=None):
        status["s"] = s

    environ = {"REQUEST_METHOD": method, "PATH_INFO": path}
    if payload is not None:
        raw = json.dumps(payload).encode()
        environ["CONTENT_LENGTH"] = str(len(raw))
        environ["wsgi.input"] = io.BytesIO(raw)
    try:
        out = app(environ, start_response)
        return status.get("s", "?"), b"".join(out), None
    except Exception as e:  # escaped exception: the server answers 500, nothing is disclosed in a body
        return "EXC:" + type(e).__name__, b"", repr(e)[:200]


def inside(p, r):
    rp = os.path.realpath(p)
    return rp == r or rp.startswith(r + os.sep)


def forbidden_tokens(base, t, R):
    """markers that must never appear in a response whose applicable root is R (a realpath)"""
    d, f = layout(t)
    out = {}
    for k, (rel, _) in f.items():
        if not inside(os.path.join(base, rel), R):
            out["content:" + k] = t["c_" + k]
            if "n_" + k in t and k != "index":
                out["name:" + k] = t["n_" + k]
    for k, rel in d.items():
        p = os.path.realpath(os.path.join(base, rel))
        if not inside(p, R) and not (R == p or R.startswith(p + os.sep)):
            out["dirname:" + k] = t["d_" + k]
    return out


def main():
    arg = json.loads(sys.argv[1])
    base = os.path.realpath(arg["base"])
    t = arg["tok"]
    d, f = layout(t)
    root = os.path.join(base, d["root"])
    static = os.path.join(base, d["static"])
    os.environ["SQLLINEAGE_DIRECTORY"] = root
    env.use_repo()
    import sqllineage.drawing as drawing

    drawing.STATIC_FOLDER = static  # absolute: joinpath() then yields the scratch folder
    app = drawing.app
    root_setting = arg.get("root_setting", "env")
    approot = root
    if root_setting == "env_then_draw":
        # requests are served under the first root before the root is re-pointed (per-instance caches must follow the root)
        for route, payload in (("/script", {"f": os.path.join(base, f["in"][0])}), ("/directory", {"d": root}), ("/lineage", {"f": os.path.join(base, f["in"][0])})):
            call(app, "POST", route, payload)
        call(app, "GET", "/")
    if root_setting in ("draw", "env_then_draw"):
        class _NoServer:
            def __enter__(self):
                return self

            def __exit__(self, *a):
                return False

            def serve_forever(self):
                return None

        drawing.make_server = lambda *a, **k: _NoServer()
        drawing.draw_lineage_graph(f=os.path.join(base, f["s"][0]), host="localhost", port=0)
        approot = os.path.join(base, d["sub"])
    cwd = {"root": root, "base": base, "sub": os.path.join(base, d["sub"])}[arg.get("cwd", "root")]
    os.chdir(cwd)
    approot_real = os.path.realpath(approot)
    static_real = os.path.realpath(static)
    forb_post = forbidden_tokens(base, t, approot_real)
    forb_get = forbidden_tokens(base, t, static_real)

    b = os.path.basename
    alphabet = ["..", ".", b(d["sub"]), b(f["in"][0]), b(d["sub"]) + "/" + b(f["s"][0]), b(f["s"][0]),
                "../" + b(d["sib"]), "../" + b(d["outside"]), b(f["sibf"][0]), b(f["out"][0]), b(f["bad"][0]), "", "~"]
    # '~' is an ordinary name to a server; the home directory it would expand to is the outside directory with its marker files
    os.environ["HOME"] = os.path.join(base, d["outside"])
    maxseg = arg["maxseg"]
    shard, nshard = arg.get("shard", 0), arg.get("nshard", 1)
    rnd = random.Random(arg.get("seed", 0) * 1000 + shard)
    sample_extra = arg.get("sample_extra", 0)
    lineage_maxseg = arg.get("lineage_maxseg", maxseg)

    def seg_lists():
        i = 0
        for n in range(1, maxseg + 1):
            for segs in itertools.product(alphabet, repeat=n):
                if i % nshard == shard:
                    yield segs
                i += 1
        for _ in range(sample_extra):
            n = rnd.choice([maxseg + 1, maxseg + 2])
            yield tuple(rnd.choice(alphabet) for _ in range(n))

    res = {"requests": 0, "by_route": {}, "by_status": {}, "allowed_ok": 0, "refused": 0, "escaped_exc": {},
           "violations": [], "inside_requests": 0, "outside_requests": 0, "paths": 0, "violations_total": 0}
    realpaths = set()

    def record(route, status, body, exc, want_inside, req, forb):
        res["requests"] += 1
        res["by_route"][route] = res["by_route"].get(route, 0) + 1
        k = status.split(" ")[0]
        res["by_status"][k] = res["by_status"].get(k, 0) + 1
        if exc:
            res["escaped_exc"][status] = res["escaped_exc"].get(status, 0) + 1
        leaks = [name for name, tk in forb.items() if tk.encode() in body]
        if want_inside:
            res["inside_requests"] += 1
            if k == "200":
                res["allowed_ok"] += 1
        else:
            res["outside_requests"] += 1
            if k != "200":
                res["refused"] += 1
        if leaks:
            res["violations_total"] += 1
            if len(res["violations"]) < 40:
                res["violations"].append({"route": route, "request": req, "status": status, "leaks": sorted(set(leaks)),
                                          "cwd": arg.get("cwd", "root"), "root_setting": root_setting,
                                          "requested_inside_root": bool(want_inside),
                                          "body": body[:240].decode("utf-8", "replace")})

    for segs in seg_lists():
        res["paths"] += 1
        rel = "/".join(segs)
        spellings = [os.path.join(approot, rel), os.path.join(base, rel), rel if rel else "."]
        for p in spellings:
            full = p if os.path.isabs(p) else os.path.join(cwd, p)
            realpaths.add(os.path.realpath(full))
            ins = inside(full, approot_real)
            ins_parent = inside(str(Path(full).parent), approot_real)
            for route, payload, want in (("/script f", {"f": p}, ins), ("/directory f", {"f": p}, ins and ins_parent),
                                         ("/directory d", {"d": p}, ins)):
                st, body, exc = call(app, "POST", route.split()[0], payload)
                record(route, st, body, exc, want, {"payload": payload}, forb_post)
            if len(segs) <= lineage_maxseg:
                st, body, exc = call(app, "POST", "/lineage", {"f": p})
                record("/lineage f", st, body, exc, ins, {"payload": {"f": p}}, forb_post)
        abs_out = os.path.join(root, rel).lstrip("/")      # absolute path of something outside the static folder
        abs_base = os.path.join(base, rel).lstrip("/")
        for g in ("/" + rel, "/" + b(d["js"]) + "/" + rel, "//" + os.path.join(static, rel).lstrip("/"),
                  "/" + os.path.relpath(os.path.join(root, rel), static),
                  # absolute spellings: PATH_INFO with a doubled/tripled leading slash, as a server passes '/%2Ftmp/x' on
                  "//" + abs_out, "///" + abs_out, "/.//" + abs_out, "//" + abs_base, "/" + abs_out):
            target = os.path.join(static, g.strip("/"))
            st, body, exc = call(app, "GET", g)
            record("GET", st, body, exc, inside(target, static_real), {"path": g}, forb_get)
    sanity = []
    s_file = os.path.join(base, f["s"][0])
    for route, payload, tk in (("/script", {"f": s_file}, t["c_s"]), ("/directory", {"d": approot}, t["d_sub"] if approot == root else t["n_s"]),
                               ("/directory", {"f": s_file}, t["n_s"]), ("/lineage", {"f": s_file}, t["c_s"])):
        st, body, exc = call(app, "POST", route, payload)
        sanity.append([route, sorted(payload), st.split(" ")[0], tk.encode() in body])
    for g, tk in (("/", t["c_index"]), ("/index.html", t["c_index"]), ("/" + b(d["js"]) + "/" + b(f["jsf"][0]), t["c_jsf"])):
        st, body, exc = call(app, "GET", g)
        sanity.append(["GET", g[:12], st.split(" ")[0], tk.encode() in body])
    res["sanity"] = sanity
    res["distinct_realpaths"] = len(realpaths)
    res["alphabet"] = alphabet
    sys.stdout.write(json.dumps(res) + "\n")


if __name__ == "__main__":
    main()
