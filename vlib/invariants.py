"""Structural invariants of C06 and C18, evaluated in the worker on the live result of a run.
Each finding is {"inv": name, "detail": str, ...}; LAST_COUNTS says how many objects each invariant
actually examined (a monitor that examined nothing must not be read as 'held')."""
import collections
import re

import networkx as nx

from . import taps

LAST_COUNTS = {}


def _ty(g, a, b):
    return g.edges[a, b].get("type")


def check_all(holder, stmt_holders, live, rec):
    LAST_COUNTS.clear()
    out = []
    out += c06(holder, stmt_holders, live)
    out += c18(holder, live, rec)
    return out[:60]


def c06(holder, stmt_holders, live):
    from sqllineage.core.models import Column, Path, SubQuery, Table
    from sqllineage.utils.constant import EdgeType

    f = []
    g = holder.graph
    cnt = collections.Counter()
    tg = holder.table_lineage_graph
    colg = holder.column_lineage_graph
    src_t, tgt_t, mid_t = set(live.get("source", [])), set(live.get("target", [])), set(live.get("intermediate", []))
    reads = set()
    for h in stmt_holders:
        reads |= set(h.read)
        # a table the script read and then renamed has been read under its new name as well
        for old, new in (getattr(h, "rename_in_order", None) or sorted(h.rename, key=str)):
            if old in reads:
                reads.add(new)
    for p in live.get("paths", []):
        cnt["paths"] += 1
        desc = " <- ".join(taps.coldesc(c) for c in reversed(p))
        if len(p) < 2:
            f.append({"inv": "C06.path_min_len", "detail": desc})
            continue
        for a, b in zip(p, p[1:]):
            cnt["hops"] += 1
            if not g.has_edge(a, b) or _ty(g, a, b) != EdgeType.LINEAGE:
                f.append({"inv": "C06.path_edge", "detail": f"{taps.coldesc(a)} -> {taps.coldesc(b)} in {desc}"})
        first, last = p[0], p[-1]
        if first not in colg or colg.in_degree(first) != 0:
            f.append({"inv": "C06.path_start_fed", "detail": desc})
        lp = last.parent
        if not isinstance(lp, Table):
            f.append({"inv": "C06.path_end_not_table", "detail": desc})
            continue
        if lp not in tgt_t and lp not in mid_t:
            f.append({"inv": "C06.path_end_not_written", "detail": desc, "table": str(lp)})
        fp = first.parent
        if isinstance(fp, (Table, Path)):
            cnt["resolved_sources"] += 1
            if fp not in reads:
                f.append({"inv": "C06.source_table_not_read", "detail": desc, "table": str(fp)})
            if fp not in tg or lp not in tg:
                f.append({"inv": "C06.table_graph_missing_node", "detail": desc,
                          "table": str(fp if fp not in tg else lp)})
            elif fp == lp:
                # the same table at both ends: a self-loop, or a cycle through other tables
                if not tg.has_edge(fp, lp) and not any(nx.has_path(tg, s2, lp) for s2 in tg.successors(fp)):
                    f.append({"inv": "C06.table_graph_disconnected", "detail": desc, "table": str(fp)})
            elif not nx.has_path(tg, fp, lp):
                f.append({"inv": "C06.table_graph_disconnected", "detail": desc, "table": str(fp)})
    # retrievability and eq/hash agreement
    by_str = collections.defaultdict(list)
    for k in list(g._node.keys()):
        cnt["nodes"] += 1
        try:
            ok = (k in g) and (g.nodes[k] is g._node[k])
        except Exception:
            ok = False
        if not ok:
            f.append({"inv": "C06.node_not_retrievable", "detail": f"{type(k).__name__} {k}"})
        by_str[(type(k).__name__, str(k))].append(k)
    for key, ns in by_str.items():
        if len(ns) > 1:
            ns = ns[:6]
            for i in range(len(ns)):
                for j in range(i + 1, len(ns)):
                    cnt["eq_pairs"] += 1
                    if ns[i] == ns[j]:
                        # two keys of one dict that compare equal: the dict could only keep both if hashes differ
                        f.append({"inv": "C06.equal_nodes_distinct_keys", "detail": f"{key}",
                                  "hash_equal": hash(ns[i]) == hash(ns[j])})
    # a resolved column has exactly one owner
    for n in list(g.nodes):
        if isinstance(n, Column) and len(n.parent_candidates) == 1:
            cnt["resolved_columns"] += 1
            owners = {s for s, _, ty in g.in_edges(n, data="type") if ty == EdgeType.HAS_COLUMN}
            if not owners:
                cnt["resolved_columns_without_owner_edge"] += 1
            if owners - {n.parent}:
                f.append({"inv": "C06.column_owner_mismatch", "detail": taps.coldesc(n),
                          "owners": sorted(str(o) for o in owners)})
    LAST_COUNTS.update({"c06_" + k: v for k, v in cnt.items()})
    return f


_SUMMARY = re.compile(
    r"^Statements\(#\): (\d+)\nSource Tables:\n    (.*?)\nTarget Tables:\n    (.*?)\n(?:Intermediate Tables:\n    (.*))?$",
    re.S,
)


def c18(holder, live, rec):
    from sqllineage.core.models import Column

    f = []
    cnt = collections.Counter()
    if "cyto_table" in live:
        tg = holder.table_lineage_graph
        nodes = [it["data"] for it in live["cyto_table"] if "source" not in it["data"]]
        edges = [it["data"] for it in live["cyto_table"] if "source" in it["data"]]
        ids = [n["id"] for n in nodes]
        cnt["table_nodes"] += len(ids)
        cnt["table_edges"] += len(edges)
        if len(ids) != len(set(ids)):
            f.append({"inv": "C18.table_ids_not_unique", "detail": str(sorted(i for i, c in collections.Counter(ids).items() if c > 1))})
        exp = collections.Counter(str(t) for t in tg.nodes)
        if collections.Counter(ids) != exp:
            f.append({"inv": "C18.table_nodes_differ", "detail": f"export={sorted(ids)} graph={sorted(exp.elements())}"})
        ee = collections.Counter((e["source"], e["target"]) for e in edges)
        ge = collections.Counter((str(a), str(b)) for a, b in tg.edges)
        if ee != ge:
            f.append({"inv": "C18.table_edges_differ", "detail": f"export-graph={sorted((ee - ge).elements())} graph-export={sorted((ge - ee).elements())}"})
        for e in edges:
            if e["source"] not in set(ids) or e["target"] not in set(ids):
                f.append({"inv": "C18.table_edge_dangling", "detail": str(e)})
        eids = [e["id"] for e in edges]
        if len(eids) != len(set(eids)):
            f.append({"inv": "C18.edge_ids_not_unique", "detail": "table"})
    if "cyto_column" in live:
        cg = holder.column_lineage_graph
        items = [it["data"] for it in live["cyto_column"]]
        edges = [d for d in items if "source" in d]
        cols = [d for d in items if "source" not in d and "parent" in d]
        pars = [d for d in items if "source" not in d and "parent" not in d]
        cnt["column_nodes"] += len(cols)
        cnt["column_parents"] += len(pars)
        cnt["column_edges"] += len(edges)
        ids = [d["id"] for d in cols] + [d["id"] for d in pars]
        dup = sorted(i for i, c in collections.Counter(ids).items() if c > 1)
        if dup:
            kinds = []
            for i in dup:
                k = ("col" if sum(1 for d in cols if d["id"] == i) else "") + ("par" if sum(1 for d in pars if d["id"] == i) else "")
                kinds.append(k)
            f.append({"inv": "C18.column_ids_not_unique", "detail": str(dup[:6]), "kinds": kinds[:6], "dups": dup[:40]})
        exp = collections.Counter(str(n) for n in cg.nodes)
        got = collections.Counter(d["id"] for d in cols)
        if exp != got:
            f.append({"inv": "C18.column_nodes_differ", "detail": f"export-graph={sorted((got - exp).elements())[:5]} graph-export={sorted((exp - got).elements())[:5]}"})
        par_ids = {d["id"]: d for d in pars}
        by_id = collections.defaultdict(list)
        for n in cg.nodes:
            by_id[str(n)].append(n)
        for d in cols:
            p = par_ids.get(d["parent"])
            if p is None:
                f.append({"inv": "C18.parent_not_exported", "detail": f"{d['id']} parent={d['parent']}"})
                continue
            # the compound parent must be the printed name of the owner of (one of) the node(s) printing this id
            owners_ok = [n for n in by_id.get(d["id"], []) if (str(n.parent) if n.parent is not None else "<unknown>") == d["parent"]]
            if by_id.get(d["id"]) and not owners_ok:
                f.append({"inv": "C18.parent_is_not_the_owner", "detail": f"{d['id']} exported under parent {d['parent']}, owner prints as {[str(n.parent) for n in by_id[d['id']]][:3]}"})
            # type of the compound parent must match the owner of (one of) the node(s) printing this id
            want = set()
            for n in by_id.get(d["id"], []):
                if str(n.parent) == d["parent"] or (n.parent is None and d["parent"] == "<unknown>"):
                    want.add(type(n.parent).__name__ if n.parent is not None else "Table or SubQuery")
            if want and p.get("type") not in want:
                f.append({"inv": "C18.parent_type_mismatch", "detail": f"{d['id']} parent={d['parent']} type={p.get('type')} want={sorted(want)}"})
        idset = set(ids)
        for e in edges:
            if e["source"] not in idset or e["target"] not in idset:
                f.append({"inv": "C18.column_edge_dangling", "detail": str(e)})
        ee = collections.Counter((e["source"], e["target"]) for e in edges)
        ge = collections.Counter((str(a), str(b)) for a, b in cg.edges)
        if ee != ge:
            f.append({"inv": "C18.column_edges_differ", "detail": f"export-graph={sorted((ee - ge).elements())[:5]} graph-export={sorted((ge - ee).elements())[:5]}"})
        eids = [e["id"] for e in edges]
        if len(eids) != len(set(eids)):
            f.append({"inv": "C18.edge_ids_not_unique", "detail": "column"})
    if "summary" in live and "source" in live and "target" in live and "intermediate" in live:
        s = live["summary"]
        if "==========\nSummary:\n" in s:
            s = s.split("==========\nSummary:\n", 1)[1]
        m = _SUMMARY.match(s)
        cnt["summaries"] += 1
        if not m:
            f.append({"inv": "C18.summary_unparsable", "detail": s[:200]})
        else:
            def lst(x):
                return [] if x is None or x.strip() == "" else [y.strip() for y in x.split("\n    ")]

            n, so, ta, mi = int(m.group(1)), lst(m.group(2)), lst(m.group(3)), lst(m.group(4))
            for name, got, acc in (("source", so, live["source"]), ("target", ta, live["target"]),
                                   ("intermediate", mi, live["intermediate"])):
                want = [str(t) for t in acc]
                if got != want:
                    f.append({"inv": "C18.summary_list_differs", "detail": f"{name}: summary={got} accessor={want}"})
                if got != sorted(got) or len(got) != len(set(got)):
                    f.append({"inv": "C18.summary_not_sorted_unique", "detail": f"{name}: {got}"})
            if "statements" in rec and n != len(rec["statements"]):
                f.append({"inv": "C18.summary_statement_count", "detail": f"{n} vs {len(rec['statements'])}"})
        # accessor views agree with the holder's sets
        for name, acc, hs in (("source", live["source"], holder.source_tables), ("target", live["target"], holder.target_tables),
                              ("intermediate", live["intermediate"], holder.intermediate_tables)):
            if sorted(str(t) for t in hs) != [str(t) for t in acc]:
                f.append({"inv": "C18.accessor_vs_holder", "detail": name})
    LAST_COUNTS.update({"c18_" + k: v for k, v in cnt.items()})
    return f
