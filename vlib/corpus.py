"""Workload data: SQL the repository's own tests feed to LineageRunner (inputs only) + bundled TPC-DS."""
import glob
import json
import os

from . import env


def suite():
    out = []
    with open(os.path.join(env.VERIF, "corpus", "suite.jsonl")) as f:
        for line in f:
            r = json.loads(line)
            out.append({"sql": r["sql"], "dialect": r["dialect"], "metadata": r["metadata"],
                        "silent": r.get("silent", False), "src": "suite"})
    return out


def tpcds():
    out = []
    for p in sorted(glob.glob(os.path.join(env.REPO, "sqllineage", "data", "tpcds", "*.sql"))):
        with open(p) as f:
            out.append({"sql": f.read(), "dialect": "ansi", "metadata": None, "silent": False,
                        "src": "tpcds:" + os.path.basename(p)})
    return out


def all_cases():
    return suite() + tpcds()


def single_statements(dialects=None):
    """distinct (sql, dialect) of the suite, metadata-free"""
    seen = set()
    out = []
    for r in suite():
        k = (r["sql"], r["dialect"])
        if k in seen or (dialects and r["dialect"] not in dialects):
            continue
        seen.add(k)
        out.append({"sql": r["sql"], "dialect": r["dialect"]})
    return out
