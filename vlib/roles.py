"""C03: relational role model + worker-side exhaustive history exploration against the real SQLLineageHolder.of.

Model state = (E, SO, TO): table edges, tables read by a statement that writes nothing, tables written by a
statement that reads nothing.  Data statements update it deterministically from the *observed* per-statement
facts (so a mis-parsed statement is C01's problem, not C03's).  Where the property under-specifies an outcome
(DROP of an unwired table; tag inheritance and self-loops on RENAME) the step is relational: the monitor keeps
the set of model states consistent with every observation so far; an empty set is the violation."""
import itertools

TABLES = ["ta", "tb", "tc"]


def roles(state):
    E, SO, TO = state
    ins = {w for _, w in E}
    outs = {r for r, _ in E}
    loops = {r for r, w in E if r == w}
    source = (outs - ins) | loops | set(SO)
    target = (ins - outs) | loops | set(TO)
    inter = (ins & outs) - loops
    return frozenset(source), frozenset(target), frozenset(inter)


def step(state, fact):
    """-> set of successor states allowed by the property"""
    E, SO, TO = state
    R, W = fact["read"], fact["write"]
    if fact["drop"]:
        out = {state}
        cur = {state}
        for t in fact["drop"]:
            nxt = set()
            for (e, so, to) in cur:
                nxt.add((e, so, to))
                wired = any(t in edge for edge in e)
                if not wired and t not in so:
                    # nothing was ever read from it or wired to it: it may disappear
                    nxt.add((e, so, frozenset(to - {t})))
            cur = nxt
        return cur
    if fact["rename"]:
        cur = {state}
        for x, y in fact["rename"]:
            nxt = set()
            for (e, so, to) in cur:
                moved = set()
                for (u, v) in e:
                    if x in (u, v) and y in (u, v):
                        continue  # x<->y edges become a loop on y: unconstrained
                    if u == x and v == x:
                        continue  # x's own loop: becomes a loop on y: unconstrained
                    if (u, v) == (y, y):
                        continue  # y's own loop: unconstrained (the tool erases it)
                    moved.add((y if u == x else u, y if v == x else v))
                so2 = set(so) - {x, y}
                to2 = set(to) - {x, y}
                for loop, yso, yto in itertools.product((False, True), repeat=3):
                    e2 = set(moved)
                    if loop:
                        e2.add((y, y))
                    nxt.add((frozenset(e2), frozenset(so2 | ({y} if yso else set())), frozenset(to2 | ({y} if yto else set()))))
            cur = nxt
        return cur
    if R and W:
        return {(frozenset(E | {(r, w) for r in R for w in W}), SO, TO)}
    if R and not W:
        return {(E, frozenset(SO | set(R)), TO)}
    if W and not R:
        return {(E, SO, frozenset(TO | set(W)))}
    return {state}


EMPTY = (frozenset(), frozenset(), frozenset())


def consistent(states, obs):
    oE, oS, oT, oI = obs
    keep = set()
    for st in states:
        if st[0] != oE:
            continue
        s, t, i = roles(st)
        if s == oS and t == oT and i == oI:
            keep.add(st)
    return keep


# ---------------------------------------------------------------- worker side
def catalog_sql():
    """abstract statements over a 3-table universe rendered to real SQL"""
    out = []
    for n in range(0, 4):
        for R in itertools.combinations(TABLES, n):
            for W in [None] + TABLES:
                if not R and W is None:
                    continue
                if R:
                    frm = R[0]
                    for r in R[1:]:
                        frm += f" join {r} on {R[0]}.k = {r}.k"
                    sel = f"select * from {frm}"
                    sql = f"insert into {W} {sel}" if W else sel
                else:
                    sql = f"insert into {W} values (1)"
                out.append({"kind": "data", "sql": sql, "R": list(R), "W": W})
    for t in TABLES:
        out.append({"kind": "drop", "sql": f"drop table {t}", "t": t})
    for x, y in itertools.permutations(TABLES, 2):
        out.append({"kind": "rename", "sql": f"alter table {x} rename to {y}", "x": x, "y": y})
    return out


_CAT = {}


def _catalog(parser):
    """parse every catalog statement once with the real analyzer; holders are reused (of() does not mutate them)"""
    if parser in _CAT:
        return _CAT[parser]
    from . import observe, taps
    from sqllineage.runner import LineageRunner

    cat = catalog_sql()
    for c in cat:
        taps.begin()
        import warnings

        with warnings.catch_warnings():
            warnings.simplefilter("ignore")
            r = LineageRunner(c["sql"], dialect="non-validating" if parser == "sqlparse" else "ansi")
            r.statements()
        st = taps.end()
        c["holder"] = st["holders"][0]
        f = st["stmts"][0]["facts"]
        c["fact"] = {"read": frozenset(f["read"]), "write": frozenset(f["write"]), "drop": tuple(f["drop"]),
                     "rename": tuple(tuple(p) for p in f["rename"])}
        c["snapshot"] = _snap(c["holder"])
    _CAT[parser] = cat
    return cat


def _snap(h):
    return (sorted(map(repr, h.graph.nodes(data=True))), sorted(map(repr, h.graph.edges(data=True))))


def _observe(holders):
    from sqllineage.core.holders import SQLLineageHolder
    from sqllineage.core.metadata.dummy import DummyMetaDataProvider
    from . import taps

    h = SQLLineageHolder.of(DummyMetaDataProvider(), *holders)
    tg = h.table_lineage_graph
    E = frozenset((taps.dsdesc(a), taps.dsdesc(b)) for a, b in tg.edges)
    return (E, frozenset(taps.dsdesc(t) for t in h.source_tables), frozenset(taps.dsdesc(t) for t in h.target_tables),
            frozenset(taps.dsdesc(t) for t in h.intermediate_tables))


def explore(arg):
    """arg: parser, maxlen, first (list of first-statement indices handled by this shard), sample: optional
    {n, len, seed} random histories instead of exhaustive.  Returns stats + violations."""
    import random

    cat = _catalog(arg["parser"])
    n = len(cat)
    res = {"histories": 0, "prefixes": 0, "violations": [], "underspecified_steps": 0, "final_states": set(),
           "exceptions": {}, "facts": [dict(sql=c["sql"], read=sorted(c["fact"]["read"]), write=sorted(c["fact"]["write"]),
                                           drop=list(c["fact"]["drop"]), rename=[list(p) for p in c["fact"]["rename"]]) for c in cat] if arg.get("want_facts") else None,
           "max_state_set": 1, "with_drop_or_rename": 0}

    def visit(hist, states, depth_left):
        """hist: list of indices; states: model state set before hist[-1] was applied"""
        c = cat[hist[-1]]
        res["prefixes"] += 1
        try:
            obs = _observe([cat[i]["holder"] for i in hist])
        except Exception as e:
            k = type(e).__name__
            res["exceptions"][k] = res["exceptions"].get(k, 0) + 1
            if len(res["violations"]) < 25:
                res["violations"].append({"history": [cat[i]["sql"] for i in hist], "kind": "exception", "detail": repr(e)[:200]})
            return
        succ = set()
        for st in states:
            succ |= step(st, c["fact"])
        keep = consistent(succ, obs)
        if len(succ) > 1:
            res["underspecified_steps"] += 1
        res["max_state_set"] = max(res["max_state_set"], len(keep))
        if not keep:
            if len(res["violations"]) < 25:
                exp = sorted({(tuple(sorted(s[0])),) + tuple(tuple(sorted(x)) for x in roles(s)) for s in succ})[:4]
                res["violations"].append({"history": [cat[i]["sql"] for i in hist], "kind": "roles",
                                          "observed": {"edges": sorted(obs[0]), "source": sorted(obs[1]), "target": sorted(obs[2]), "intermediate": sorted(obs[3])},
                                          "allowed_examples(edges,source,target,intermediate)": exp})
            res["violations_total"] = res.get("violations_total", 0) + 1
            return  # successors of a violated prefix are not judged again
        res["histories"] += 1
        if any(cat[i]["kind"] != "data" for i in hist):
            res["with_drop_or_rename"] += 1
        res["final_states"].add(hash((obs, frozenset(keep))))
        if depth_left > 0:
            for j in nexts(hist):
                visit(hist + [j], keep, depth_left - 1)

    if arg.get("sample"):
        sp = arg["sample"]
        rnd = random.Random(sp["seed"])
        chosen = {}

        for _ in range(sp["n"]):
            h = [rnd.randrange(n) for _ in range(sp["len"])]
            # walk the single path
            states = {EMPTY}
            ok = True
            for k in range(1, len(h) + 1):
                pre = h[:k]
                c = cat[pre[-1]]
                res["prefixes"] += 1
                try:
                    obs = _observe([cat[i]["holder"] for i in pre])
                except Exception as e:
                    kx = type(e).__name__
                    res["exceptions"][kx] = res["exceptions"].get(kx, 0) + 1
                    if len(res["violations"]) < 25:
                        res["violations"].append({"history": [cat[i]["sql"] for i in pre], "kind": "exception", "detail": repr(e)[:200]})
                    ok = False
                    break
                succ = set()
                for st in states:
                    succ |= step(st, c["fact"])
                if len(succ) > 1:
                    res["underspecified_steps"] += 1
                states = consistent(succ, obs)
                res["max_state_set"] = max(res["max_state_set"], len(states))
                if not states:
                    if len(res["violations"]) < 25:
                        exp = sorted({(tuple(sorted(s[0])),) + tuple(tuple(sorted(x)) for x in roles(s)) for s in succ})[:4]
                        res["violations"].append({"history": [cat[i]["sql"] for i in pre], "kind": "roles",
                                                  "observed": {"edges": sorted(obs[0]), "source": sorted(obs[1]), "target": sorted(obs[2]), "intermediate": sorted(obs[3])},
                                                  "allowed_examples(edges,source,target,intermediate)": exp})
                    res["violations_total"] = res.get("violations_total", 0) + 1
                    ok = False
                    break
            if ok:
                res["histories"] += 1
                if any(cat[i]["kind"] != "data" for i in h):
                    res["with_drop_or_rename"] += 1
                res["final_states"].add(hash((obs, frozenset(states))))
    else:
        def nexts(hist):
            return range(n)

        for f in arg["first"]:
            visit([f], {EMPTY}, arg["maxlen"] - 1)
    # holders must not have been mutated by of() (the reuse of parsed holders depends on it)
    mutated = [c["sql"] for c in cat if _snap(c["holder"]) != c["snapshot"]]
    res["holders_mutated"] = mutated
    res["final_states"] = len(res["final_states"])
    res["n_statements"] = n
    return res


def replay_history(arg):
    cat = _catalog(arg["parser"])
    res = {"violations": [], "steps": []}
    states = {EMPTY}
    h = arg["history"]
    for k in range(1, len(h) + 1):
        pre = h[:k]
        try:
            obs = _observe([cat[i]["holder"] for i in pre])
        except Exception as e:
            res["violations"].append({"kind": "exception", "detail": repr(e)})
            break
        succ = set()
        for st in states:
            succ |= step(st, cat[pre[-1]]["fact"])
        states = consistent(succ, obs)
        res["steps"].append({"sql": cat[pre[-1]]["sql"], "observed": [sorted(x) for x in obs], "n_allowed": len(succ), "n_consistent": len(states)})
        if not states:
            res["violations"].append({"kind": "roles", "at": k})
            break
    return res
