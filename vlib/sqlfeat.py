"""Master-side mechanism features of an SQL text, computed with sqlfluff's parser (a dependency, not the
code under test) - used only to decide whether a discrepancy on a *corpus* input is an instance of a
listed known-finding mechanism. Generated inputs carry feature tags from their AST instead."""
import functools
import re


def _esc(name):
    name = name.strip()
    if any(q in name for q in "`\"'"):
        return name.strip("`\"'")
    if name.startswith("[") and name.endswith("]"):
        return name[1:-1]
    return name.lower()


@functools.lru_cache(maxsize=4096)
def features(sql, dialect):
    from sqlfluff.core import FluffConfig, Linter

    d = "ansi" if dialect == "non-validating" else dialect
    f = {"mixed_comma_join_names": set(), "select_subquery_tables": set(), "lateral_view_aliases": set(),
         "rename_old": set(), "rename_new": set(), "having_subquery_tables": set(), "parsed": False,
         "stmt_types": [], "same_alias_subqueries": set(), "case_subquery": False, "n_rename_pairs": 0,
         "case_subquery_aliases": set(), "subquery_aliases": set(), "select_has_subquery": False, "same_text_subqueries": False, "nested_group_first_aliases": set(), "cte_paren_setop_names": set(), "where_has_subquery": False, "select_subquery_aliases": set(), "fullname_schemas": set(), "select_subquery_fullname_schemas": set(), "select_subquery_window_expr_tables": set(), "repeated_subquery_item_aliases": set(), "update_first_table_aliases": set(), "table_function_aliases": set()}
    try:
        tree = Linter(config=FluffConfig(overrides={"dialect": d})).parse_string(sql).tree
    except Exception:
        tree = None
    if tree is None:
        return _freeze(f)
    f["parsed"] = True

    def tables_in(seg):
        out = set()
        for t in seg.recursive_crawl("table_reference"):
            out.add(_esc(t.raw.split(".")[-1]))
        return out

    def alias_of(fee):
        a = fee.get_child("alias_expression")
        if a is not None:
            ids = [s for s in a.segments if s.type in ("identifier", "naked_identifier", "quoted_identifier")]
            if ids:
                return _esc(ids[-1].raw)
        return None

    for st in tree.recursive_crawl("statement"):
        if st.segments:
            f["stmt_types"].append(st.segments[0].type)
    for fc in tree.recursive_crawl("from_clause"):
        fes = fc.get_children("from_expression")
        if len(fes) > 1:
            for fe in fes:
                for jc in fe.get_children("join_clause"):
                    for fee in jc.recursive_crawl("from_expression_element"):
                        a = alias_of(fee)
                        if a:
                            f["mixed_comma_join_names"].add(a)
                        f["mixed_comma_join_names"] |= tables_in(fee)
    for sce in tree.recursive_crawl("select_clause_element"):
        for sub in sce.recursive_crawl("select_statement"):
            f["select_subquery_tables"] |= tables_in(sub)
            f["select_has_subquery"] = True
            for fee in list(sub.recursive_crawl("from_expression_element")) + [b for b in sub.recursive_crawl("bracketed") if b.get_child("table_expression") is not None]:
                a = alias_of(fee)
                if a:
                    f["select_subquery_aliases"].add(a)
        if any(True for _ in sce.recursive_crawl("case_expression")) and any(True for _ in sce.recursive_crawl("select_statement")):
            f["case_subquery"] = True
            a = sce.get_child("alias_expression")
            if a is not None:
                ids = [x for x in a.segments if x.type in ("identifier", "naked_identifier", "quoted_identifier")]
                if ids:
                    f["case_subquery_aliases"].add(_esc(ids[-1].raw))
    for wc in tree.recursive_crawl("where_clause"):
        if any(True for _ in wc.recursive_crawl("select_statement")):
            f["where_has_subquery"] = True
    def first_of_full(seg):
        out = set()
        for cr in seg.recursive_crawl("column_reference"):
            ids = [x for x in cr.segments if x.type in ("identifier", "naked_identifier", "quoted_identifier")]
            if len(ids) >= 3:
                out.add(_esc(ids[0].raw))
        return out

    # UPDATE t1 o JOIN t2 c ... SET ...: alias of the first (written) table
    for us in tree.recursive_crawl("update_statement"):
        for fe in us.get_children("from_expression"):
            fees = list(fe.get_children("from_expression_element"))
            if fees:
                a = alias_of(fees[0])
                if a:
                    f["update_first_table_aliases"].add(a)
        a0 = us.get_child("alias_expression")
        if a0 is not None:
            ids = [x for x in a0.segments if x.type in ("identifier", "naked_identifier", "quoted_identifier")]
            if ids:
                f["update_first_table_aliases"].add(_esc(ids[-1].raw))
    # FROM generate_series(1, 3) AS g(x) / unnest(...) AS u: alias of a table function
    for fee in tree.recursive_crawl("from_expression_element"):
        te = fee.get_child("table_expression")
        if te is not None and te.get_child("function") is not None:
            a = alias_of(fee)
            if a:
                f["table_function_aliases"].add(a)
    item_aliases = []
    for sce in tree.recursive_crawl("select_clause_element"):
        if any(True for _ in sce.recursive_crawl("select_statement")):
            a = sce.get_child("alias_expression")
            ids = [x for x in a.segments if x.type in ("identifier", "naked_identifier", "quoted_identifier")] if a is not None else []
            if ids:
                item_aliases.append(_esc(ids[-1].raw))
    f["repeated_subquery_item_aliases"] = {a for a in item_aliases if item_aliases.count(a) > 1}
    f["fullname_schemas"] = first_of_full(tree)
    for sce in tree.recursive_crawl("select_clause_element"):
        for sub in sce.recursive_crawl("select_statement"):
            f["select_subquery_fullname_schemas"] |= first_of_full(sub)
            # a window function inside the sub-query whose argument is more than a plain column reference
            for fn in sub.recursive_crawl("function"):
                if fn.get_child("over_clause") is not None:
                    fc = fn.get_child("function_contents") or fn
                    br = fc.get_child("bracketed")
                    arg = br.raw.strip()[1:-1].strip() if br is not None else ""
                    if arg and not re.fullmatch(r"(?:distinct\s+)?[\w.\"`\[\]]+|\*", arg, re.I):
                        f["select_subquery_window_expr_tables"] |= tables_in(sub)
    for hv in tree.recursive_crawl("having_clause"):
        for sub in hv.recursive_crawl("select_statement"):
            f["having_subquery_tables"] |= tables_in(sub)
    for m in re.finditer(r"lateral\s+view\s+(?:outer\s+)?[\w.]+\s*\(.*?\)\s+(\w+)\s+as\b", sql, re.I | re.S):
        f["lateral_view_aliases"].add(_esc(m.group(1)))
    for ty in ("alter_table_statement", "rename_statement", "rename_table_statement"):
        for st in tree.recursive_crawl(ty):
            if re.search(r"\brename\b", st.raw, re.I):
                ts = [_esc(t.raw.split(".")[-1]) for t in st.segments if t.type in ("table_reference", "object_reference")]
                f["n_rename_pairs"] = max(f["n_rename_pairs"], len(ts) // 2)
                for i in range(0, len(ts) - 1, 2):
                    f["rename_old"].add(ts[i])
                    f["rename_new"].add(ts[i + 1])
    # derived tables / CTEs that share an alias
    aliases = []
    for fee in tree.recursive_crawl("from_expression_element"):
        if any(True for _ in fee.recursive_crawl("select_statement")):
            a = alias_of(fee)
            if a:
                aliases.append(a)
    for cte in tree.recursive_crawl("common_table_expression"):
        ids = [s for s in cte.segments if s.type in ("identifier", "naked_identifier", "quoted_identifier")]
        if ids:
            aliases.append(_esc(ids[0].raw))
            # WITH w AS ((select ...) union (select ...)): body is a set operation whose branches are parenthesised
            for br in cte.get_children("bracketed"):
                for se in br.get_children("set_expression"):
                    if se.get_children("bracketed"):
                        f["cte_paren_setop_names"].add(_esc(ids[0].raw))
    # a JOIN (b x JOIN c ...) ON ...: alias of the first relation inside a parenthesised join group (KF-36)
    for br in tree.recursive_crawl("bracketed"):
        if br.get_child("table_expression") is not None and br.get_children("join_clause"):
            a = alias_of(br)
            if a:
                f["nested_group_first_aliases"].add(a)
    # sub-queries with identical text (the tool's SubQuery equality is textual)
    texts = []
    for br in tree.recursive_crawl("bracketed"):
        inner = [x for x in br.segments if x.type in ("select_statement", "set_expression", "with_compound_statement")]
        ex = [x for x in br.segments if x.type == "expression"]
        if not inner and ex:
            inner = [y for x in ex for y in x.segments if y.type == "select_statement"]
        if inner:
            texts.append(br.raw)
    f["same_text_subqueries"] = any(texts.count(t) > 1 for t in texts)
    f["same_alias_subqueries"] = {a for a in aliases if aliases.count(a) > 1}
    f["subquery_aliases"] = set(aliases)
    return _freeze(f)


def _freeze(f):
    return {k: (frozenset(v) if isinstance(v, set) else tuple(v) if isinstance(v, list) else v) for k, v in f.items()}


def bare(tname):
    """'<default>.q' / 'path:...' -> 'q'"""
    return tname.split(".")[-1]
