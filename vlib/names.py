"""C16 worker op: the public model classes built directly from dotted names."""
from . import env

env.use_repo()


def table_api(arg):
    from sqllineage.core.models import Column, Table

    out = []
    for name in arg["names"]:
        try:
            t = Table(name)
            t2 = Table(name)
            c = Column("Cx")
            c.parent = t
            c2 = Column("cX")
            c2.parent = t2
            out.append({"name": name, "str": str(t), "schema": str(t.schema), "table": t.raw_name, "eq": t == t2, "hash_eq": hash(t) == hash(t2),
                        "col_eq": c == c2, "col_hash_eq": hash(c) == hash(c2), "in_set": len({t, t2}) == 1 and len({c, c2}) == 1})
        except Exception as e:
            out.append({"name": name, "exc": type(e).__name__})
    return out
