"""C16 worker op: the public model classes built directly from dotted names."""
from . import env

env.use_repo()


def table_api(arg):
    from sqllineage.core.models import Column, Table

    out = []
    for name in arg["names"]:
        try:
            t = Table(name)
            t2 = Table(name)
            c = Column("Cx")
            c.parent = t
            c2 = Column("cX")
            c2.parent = t2
            rec = {"name": name, "str": str(t), "schema": str(t.schema), "table": t.raw_name, "eq": t == t2, "hash_eq": hash(t) == hash(t2),
                   "col_eq": c == c2, "col_hash_eq": hash(c) == hash(c2), "in_set": len({t, t2}) == 1 and len({c, c2}) == 1}
            if not any(ch in name for ch in "\"`["):
                # unquoted names compare case-insensitively: the same name in another letter case is the same table
                tu, tl = Table(name.upper()), Table(name.lower())
                rec["other_case_same"] = tu == tl == t and hash(tu) == hash(tl) == hash(t) and len({tu, tl, t}) == 1 and str(tu) == str(tl)
            out.append(rec)
        except Exception as e:
            out.append({"name": name, "exc": type(e).__name__})
    return out


def parsed_vs_built(arg):
    """the same table reached two ways - parsed out of a statement, and built from the spelled name through the public model class:
    whenever the two compare equal they must hash equal and find each other in sets and dicts (also their schemas and a column owned by them)"""
    import warnings
    from sqllineage.core.models import Column, Table
    from sqllineage.runner import LineageRunner

    out = []
    for sql, dialect, name in arg["cases"]:
        rec = {"sql": sql, "dialect": dialect, "name": name}
        try:
            with warnings.catch_warnings():
                warnings.simplefilter("ignore")
                r = LineageRunner(sql, dialect=dialect)
                tables = list(r.source_tables) + list(r.target_tables) + list(r.intermediate_tables)
            b = Table(name)
            rec["built"] = str(b)
            rec["parsed"] = [str(t) for t in tables]
            bad = []
            for t in tables:
                if not isinstance(t, Table):
                    continue
                if t == b:
                    rec["equal_seen"] = True
                    c1, c2 = Column("c1"), Column("c1")
                    c1.parent, c2.parent = t, b
                    if hash(t) != hash(b):
                        bad.append("equal tables hash differently")
                    if b not in {t} or {t: 1}.get(b) != 1:
                        bad.append("equal table not found in a set/dict holding the other")
                    if t.schema == b.schema and hash(t.schema) != hash(b.schema):
                        bad.append("equal schemas hash differently")
                    if c1 == c2 and (hash(c1) != hash(c2) or c2 not in {c1}):
                        bad.append("equal columns of the two tables hash differently")
            rec["bad"] = bad
        except Exception as e:
            rec["exc"] = type(e).__name__
        out.append(rec)
    return out
