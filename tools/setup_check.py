#!/venv/bin/python
"""setup_cmd: nothing to install (standard library + packages already in /venv). Verifies the harness imports
and that one worker can import the repository's working tree with all taps attached."""
import os
import sys

HERE = os.path.dirname(os.path.dirname(os.path.abspath(__file__)))
sys.path.insert(0, HERE)
sys.dont_write_bytecode = True
os.chdir(HERE)
from vlib.pool import Pool  # noqa: E402

with Pool(1) as p:
    st, res = p.call(0, "vlib.observe:ping", None, timeout=120)
print(st, res)
for d in ("evidence", "replays"):
    os.makedirs(os.path.join(HERE, d), exist_ok=True)
sys.exit(0 if st == "ok" and not res.get("missing") else 1)
