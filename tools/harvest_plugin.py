"""pytest plugin: record every LineageRunner construction made by the repository's own tests.
Usage (from /repo): /venv/bin/python -m pytest -q -p no:cacheprovider -p harvest_plugin  (PYTHONPATH=/verif/tools)
Only inputs are recorded (sql, dialect, metadata dict, silent flag, test id) - never expected values."""
import json, os

_OUT = os.environ.get("HARVEST_OUT", "/tmp/harvest.jsonl")
_cur = {"id": None}
_fh = None


def pytest_configure(config):
    global _fh
    _fh = open(_OUT, "w")
    from sqllineage import runner
    from sqllineage.core.metadata.dummy import DummyMetaDataProvider

    orig = runner.LineageRunner.__init__

    def patched(self, sql, *a, **k):
        orig(self, sql, *a, **k)
        try:
            mp = self._metadata_provider
            md = None
            kind = type(mp).__name__
            if isinstance(mp, DummyMetaDataProvider):
                md = dict(mp.metadata)
            elif hasattr(mp, "engine"):
                # SQLAlchemy provider used by the tests: dump what it can answer via sqlite_master of attached dbs
                md = None
            rec = {"sql": sql, "dialect": self._dialect, "metadata": md, "provider": kind,
                   "silent": bool(self._silent_mode), "test": _cur["id"]}
            _fh.write(json.dumps(rec) + "\n")
        except Exception as e:  # never disturb the test
            _fh.write(json.dumps({"error": repr(e)}) + "\n")

    runner.LineageRunner.__init__ = patched


def pytest_runtest_setup(item):
    _cur["id"] = item.nodeid


def pytest_unconfigure(config):
    if _fh:
        _fh.close()
