#!/venv/bin/python
"""triage.py PID [N] [maxlen]: cluster replay files of a check by (kind, mechanism tags) and print the shortest example per cluster"""
import collections, glob, json, sys
pid = sys.argv[1]; N = int(sys.argv[2]) if len(sys.argv) > 2 else 12; L = int(sys.argv[3]) if len(sys.argv) > 3 else 420
PRE = ('stmt.', 'setop.', 'with.', 'from.', 'join.derived', 'select.star', 'select.scalar', 'col.unqualified_in', 'merge.', 'update.', 'having.', 'where.subquery')
c = collections.Counter(); ex = {}
for p in glob.glob(f'{__import__("os").environ.get("TRIAGE_DIR", "/verif/replays")}/{pid}-*.json'):
    r = json.load(open(p))
    tags = tuple(sorted(t for t in r['case'].get('tags', []) if t.startswith(PRE)))
    key = (r['kind'].split(':')[0], r['case'].get('dialect') if len(sys.argv) > 4 else '', tags)
    c[key] += 1
    if key not in ex or len(r['case'].get('sql', '')) < len(ex[key]['case'].get('sql', '')):
        ex[key] = r
print(len(c), 'clusters', sum(c.values()), 'replays')
for k, v in c.most_common(N):
    r = ex[k]
    print('#####', v, k[0], k[1], ' '.join(k[2]))
    print('   ', r['case'].get('dialect'), '|', r['case'].get('sql', '')[:L])
    d = r['detail']
    if isinstance(d, dict):
        for f in ('missing', 'unexpected'):
            if f in d: print('    ', f.upper(), json.dumps(d[f])[:L])
        if 'missing' not in d: print('    ', json.dumps(d)[:L])
