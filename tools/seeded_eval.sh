#!/bin/bash
# seeded_eval.sh <ID> [check ids...] : confirm a sub-agent's seeded change in its scratch worktree /tmp/wt_<ID>, archive it under
# /verif/seeded/<ID>/, and run the given checks (default: the property's own) against the changed tree via VERIF_REPO.
id=$1; shift
# archive id may carry a round suffix (C01_r2): the worktree is then /tmp/w2_C01 and the default check is C01
pidonly=${id%%_*}
if [[ "$id" == *_r2 ]]; then wt=/tmp/w2_$pidonly; elif [[ "$id" == *_r3 ]]; then wt=/tmp/w3_$pidonly; elif [[ "$id" == *_r4 ]]; then wt=/tmp/w4_$pidonly; elif [[ "$id" == *_r5 ]]; then wt=/tmp/w5_$pidonly; elif [[ "$id" == *_r6 ]]; then wt=/tmp/w6_$pidonly; elif [[ "$id" == *_r7 ]]; then wt=/tmp/w7_$pidonly; else wt=/tmp/wt_$id; fi
checks=${@:-$pidonly}
out=/verif/seeded/$id; mkdir -p $out
cd $wt || exit 2
[ -f seeded/patch.diff ] || git diff -- sqllineage > seeded/patch.diff
# normalise: patch.diff must be exactly the current source change
git diff -- sqllineage > /tmp/_cur_$id.diff
if ! diff -q /tmp/_cur_$id.diff seeded/patch.diff >/dev/null; then echo "NOTE: seeded/patch.diff differs from worktree diff; using worktree diff"; cp /tmp/_cur_$id.diff seeded/patch.diff; fi
rm -f /tmp/_cur_$id.diff
(cd $wt && /venv/bin/python seeded/demo.py >/tmp/_demo_with_$id.log 2>&1); with=$?
git apply -R seeded/patch.diff || { echo "cannot revert patch"; exit 2; }
(cd $wt && /venv/bin/python seeded/demo.py >/tmp/_demo_without_$id.log 2>&1); without=$?
git apply seeded/patch.diff || { echo "cannot re-apply patch"; exit 2; }
suite=$(cd $wt && PYTHONDONTWRITEBYTECODE=1 /venv/bin/python -m pytest -q -p no:cacheprovider --timeout=900 2>&1 | tail -1)
echo "demo with change: exit $with ; without: exit $without ; suite: $suite"
tail -3 /tmp/_demo_with_$id.log
cp seeded/patch.diff seeded/demo.py $out/ 2>/dev/null; cp seeded/meta.json $out/agent_meta.json 2>/dev/null
res=""
for c in $checks; do
  o=$(cd /verif && VERIF_REPO=$wt VERIF_EVIDENCE_DIR=/tmp/_ev_$id VERIF_REPLAY_DIR=/tmp/_rp_$id /venv/bin/python check.py $c --tier ${TIER:-quick} 2>&1); rc=$?
  echo "check $c (${TIER:-quick}) rc=$rc : $(echo "$o" | grep -m2 "^VIOLATION\|kind=" | cut -c1-260 | tr '\n' ' ')"
  echo "$o" | tail -1
  res="$res $c:${TIER:-quick}:rc=$rc"
done
/venv/bin/python - "$id" "$with" "$without" "$suite" "$res" <<'PY'
import json, sys, os
id, w, wo, suite, res = sys.argv[1:6]
p = f"/verif/seeded/{id}/meta.json"
m = json.load(open(p)) if os.path.exists(p) else {}
try: a = json.load(open(f"/verif/seeded/{id}/agent_meta.json"))
except Exception: a = {}
m.update({"property": id.split("_")[0], "breaks": a.get("summary"), "needs_to_manifest": a.get("needs_to_manifest"), "files_changed": a.get("files_changed"),
          "confirmed": {"demo_exit_with_change": int(w), "demo_exit_unchanged": int(wo), "test_suite_with_change": suite.strip()},
          "what_i_ran": "tools/seeded_eval.sh: demo.py with/without the patch in a scratch worktree outside /repo and /verif; full pytest suite with the patch; checks via VERIF_REPO=<worktree>"})
m.setdefault("checks_run", {})
for r in res.split():
    c, tier, rc = r.split(":")
    m["checks_run"][f"{c}:{tier}"] = {"0": "missed (exit 0)", "1": "caught (VIOLATION, exit 1)", "2": "inconclusive (exit 2)"}.get(rc.split("=")[1], rc)
json.dump(m, open(p, "w"), indent=1)
PY
rm -rf /tmp/_ev_$id /tmp/_rp_$id /tmp/_demo_with_$id.log /tmp/_demo_without_$id.log
