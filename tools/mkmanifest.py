#!/venv/bin/python
"""Regenerates /verif/MANIFEST.json from the table below (single source of truth for what is claimed)."""
import json
import os

HERE = os.path.dirname(os.path.dirname(os.path.abspath(__file__)))

CHECKS = {
    "C04": dict(
        technique="history monitor (composition model over per-statement column edges from the statement tap) + session-knowledge monitor over session tap events",
        category="exploration",
        text="For generated chain scripts (linear/diamond/fan-in/re-write; all/some/none consumed; star or named; with and without provider) and the multi-statement corpus, the reported end-to-end "
             "pairs must equal root->leaf reachability over the union of the per-statement column edges (late resolution applied); with a provider, a star over an earlier target must expand "
             "to exactly its columns and the session tap must show each registration between the writing and the reading statement.",
        design_ref="DESIGN.md §4 C04",
        note="Column identity in the model is the printed owner/candidates + name; per-statement edges come from the statement tap, so a mis-analysed statement is C02's problem, not C04's.",
    ),
    "C05": dict(
        technique="split monitor + combination monitor: scripts assembled from known pieces and separator noise, compared with the pieces analysed alone (statement tap holders folded by the real SQLLineageHolder.of); lexer-disagreement noise (nested comments, backslash-ended literals) with sqlfluff's own parse as independent oracle",
        category="exploration",
        text="For thousands of scripts assembled from 1-5 known statements with every separator/noise variant (and tsql no-semicolon mode), statements() must be exactly "
             "the pieces in order and the script's tables, table edges and column pairs must equal the fold of the pieces analysed on their own.",
        design_ref="DESIGN.md §4 C05",
        note="Both sides are normalised by an own comment/whitespace lexer; a tsql batch that sqlfluff itself cannot parse is counted as not accepted.",
    ),
    "C06": dict(
        technique="runtime invariant monitor on live result graphs (taps on analyze/of), corpus + generated workloads",
        category="exploration",
        text="Every column path, graph node and resolved column of every analysis result produced by the harvested test-suite SQL, "
             "TPC-DS and generated scripts is checked in-process against the well-formedness and table-projection invariants; "
             "held means no unlisted violation on the executions observed (counts in evidence).",
        design_ref="DESIGN.md §4 C06",
        note="Trusts the statement/assemble taps to see every top-level call (zero events => inconclusive); known findings are matched by mechanism via sqlfluff parse features.",
    ),
    "C18": dict(
        technique="runtime invariant monitor comparing each export with the live lineage graph",
        category="exploration",
        text="For every result of the same workloads both Cytoscape exports and the text summary are compared node-for-node and edge-for-edge "
             "with the graph views they are derived from; ids unique, parents/endpoints exported.",
        design_ref="DESIGN.md §4 C18",
        note="Trusts networkx graph views as ground truth for what the lineage graph contains.",
    ),
    "C01": dict(
        technique="reference-model monitor: generated ASTs carry their own table-level meaning; statement tap + public accessors compared with it",
        category="exploration",
        text="Every statement of a bounded-exhaustive (depth 1; hole-complete depth 2 in thorough) and seeded-random (depth <= 4) core-grammar enumeration is rendered and analysed "
             "by the real package under sqlfluff dialects; per-statement read/write sets and source/target tables must equal the AST's meaning; local names must never appear.",
        design_ref="DESIGN.md §4 C01",
        note="The generator's structural semantics is the trusted reference (core grammar, keyword-free identifiers); InvalidSyntaxException = not accepted by that dialect; known findings are matched only by the narrow 'sources lost under one tagged AST mechanism' shape.",
    ),
    "C02": dict(
        technique="reference-model monitor: generated ASTs carry their own column dataflow; get_column_lineage end-to-end pairs compared with it",
        category="exploration",
        text="Seeded-random and enumerated statements (expression trees to depth 3 over every select-item kind, 1-3 relations in scope, derived tables, CTEs, set operations, "
             "INSERT column lists, UPDATE FROM, MERGE, scalar sub-query operands incl. correlated references through an outer alias) are analysed by the real package; the reported (source column -> target column) pairs, with owners or sorted candidate owners, "
             "must equal the AST's dataflow.",
        design_ref="DESIGN.md §4 C02",
        note="Shapes the property leaves undecided are not generated (mixed stars, stars over CTE references) or tolerated (sub-query rooted pairs of literal-defined columns); the same text analysed exactly under ansi is the referee for per-dialect blind spots.",
    ),
    "C03": dict(
        technique="history monitor: relational role model replayed over observed per-statement facts, real SQLLineageHolder.of called on every prefix",
        category="exploration",
        text="All histories up to the length bound over a 40-statement abstract catalog (parsed once by the real analyzers) are folded by the real "
             "SQLLineageHolder.of at every prefix and compared with the set of role-model states the property allows; random SQL scripts are run "
             "end to end through LineageRunner prefix by prefix, and every statement's facts inside the script must equal its facts when analysed alone.",
        design_ref="DESIGN.md §4 C03",
        note="DROP of an unwired table and tag/self-loop inheritance on RENAME are relational (either outcome accepted); facts come from the statement tap.",
    ),
    "C07": dict(
        technique="metamorphic monitor: token-level layout/comment/case/quoting/semicolon rewrites driven by sqlfluff's lexer+parser, original vs rewritten statement or multi-statement script run through the real package; comment styles asked of each dialect's lexer (--, /* */, # )",
        category="exploration",
        text="Each corpus/TPC-DS statement is rewritten (whitespace, block/line comments containing ; and quotes, comment insertion next to , ( ), upper/lower/swap/mixed case, "
             "identifier quoting, trailing semicolons, combinations; every single boundary in thorough) and tables, table edges and named column pairs must not change.",
        design_ref="DESIGN.md §4 C07",
        note="A rewritten text that the dialect's own sqlfluff parser rejects is counted, not judged; a quoted token must still parse as an identifier; expression-named columns are compared modulo layout/case/quotes.",
    ),
    "C08": dict(
        technique="metamorphic monitor at AST level: injective renaming of statement-local names from an adversarial pool, add/drop alias, toggle AS; original vs transformed run through the real package",
        category="exploration",
        text="Generated statements are alpha-renamed (aliases, derived-table aliases, CTE names -> bare names of the statement's other tables incl. aliased-away ones, column names, mixed case, "
             "non-reserved words), get aliases added/dropped and AS toggled; tables and end-to-end column pairs must be unchanged (local names in candidate sets mapped).",
        design_ref="DESIGN.md §4 C08",
        note="All generated local names are unique per statement so one global substitution renames consistently; a new name never equals a relation name visible in the same FROM scope; correlated references are not generated.",
    ),
    "C09": dict(
        technique="differential monitor across 28 dialects and both analyzers on generated core statements, AST meaning as referee; the same with a catalog (non-empty provider)",
        category="exploration",
        text="Each generated core statement is analysed under every sqlfluff dialect and the non-validating analyzer; accepting dialects must report identical tables and column pairs, "
             "and the legacy analyzer identical table lineage; a deviating analyzer is judged, the AST's own meaning decides which side deviates.",
        design_ref="DESIGN.md §4 C09",
        note="InvalidSyntax/UnsupportedStatement = not accepted; deviations are matched to listed findings only through AST mechanism tags (generic) or listed dialect:mechanism pairs.",
    ),
    "C10": dict(
        technique="invariant monitor on the outcome of every execution over a hostile mutation workload + independent parse oracle + silent-mode differential monitor",
        category="exploration",
        text="Every accessor is touched on thousands of damaged, truncated, crossed-over, nested and metacharacter-laden inputs under all analyzers; the outcome "
             "must be a result or a sqllineage exception; text that sqlfluff's own parser rejects must not return a result; an accessor called again on the same runner after an error must raise a library error again; an unsupported statement inserted "
             "at every position of a silent-mode script must warn and leave the result unchanged.",
        design_ref="DESIGN.md §4 C10",
        note="sqlfluff's Linter.parse_string is trusted as the independent parse oracle (single-statement inputs only). The mutation workload is a deterministic function of (corpus, tier) plus a VERIF_SEED-driven slice.",
    ),
    "C11": dict(
        technique="differential monitor across worker processes with different PYTHONHASHSEED + in-process repetition (fresh provider, and three runs through one reused provider object) + accessor-order permutation incl. the flag variants of get_column_lineage",
        category="exploration",
        text="The canonical public record (summaries, column paths, both exports, text summary, outcome) of every corpus/TPC-DS/order-sensitive case is "
             "compared across processes started with different hash seeds, across a repetition in the same process and across permuted/repeated accessor calls.",
        design_ref="DESIGN.md §4 C11",
        note="Anonymous subquery names are canonicalised from the node's own text; exports compared as sorted node/edge lists without edge ids; path order is compared only when no generated name takes part in it.",
    ),
    "C12": dict(
        technique="history + session-balance monitors over recorded session events, fault injection at statements/lookups/line events (sys.monitoring), 16-thread stress with yield injection (one reused provider per thread, session store checked after every run), turn-based schedules of sessions overlapping on one provider",
        category="fault_enumeration",
        text="Run B after a history of runs (failing statement at every position, provider raising at every lookup, InjectedFault at line events inside the run's work) "
             "on default/shared/fresh providers must equal B in a fresh process (also with scratch configuration directories given as file_path); at every return or raise the session tap must balance and the provider must answer as "
             "a fresh one; 16 threads with own providers/configs under seeded yield injection must reproduce the sequential records.",
        design_ref="DESIGN.md §4 C12",
        note="Faults are not injected inside the cleanup path itself (MetaDataSession.__exit__/deregister); line failpoints are sampled in quick, exhaustive per script in thorough.",
    ),
    "C13": dict(
        technique="differential + reference-model monitor: statement templates x every known/unknown assignment x overlap pattern x both bundled providers, and generated statements under random metadata",
        category="exploration",
        text="For every assignment of (known with columns | unknown) to the tables of star / qualified-star / unqualified-column / INSERT with and without column list templates, and for generated "
             "statements with random metadata, the run with a provider is compared with the run without (table lineage identical; all-unknown identical) and with the reference expansion/attribution; the same case is repeated on the same provider object after a run that failed.",
        design_ref="DESIGN.md §4 C13",
        note="The SQLAlchemy provider runs on scratch sqlite files (one fresh set per case); which known table a shared star column is attributed to is left undecided (table level only).",
    ),
    "C14": dict(
        technique="differential monitor at AST level: unqualified rendering under default schema S vs S-qualified rendering without default, configuration mechanisms (worker env before import, env after import, scoped override) and in-process histories (closed scope, same text under another schema)",
        category="exploration",
        text="Generated 1-3 statement scripts are rendered twice (unqualified / every unqualified table written S.name) and analysed by the real package under each mechanism and both analyzers; "
             "tables, column pairs and both exports must be equal; with no default every owner prints the placeholder.",
        design_ref="DESIGN.md §4 C14",
        note="Anonymous sub-query names are neutralised (their text differs by construction); column qualifiers are left as written in both renderings.",
    ),
    "C15": dict(
        technique="controlled-scheduler history monitor: real threads gated per step (and at sys.monitoring LINE events), per-thread sequential model",
        category="exploration",
        text="Every read and every accept/reject outcome of real threads driving the real config object is compared with a per-thread scope model, "
             "for all op-level interleavings of every pair of catalog programs (and a subset of triples), sampled line-level pre-emptions and "
             "back-to-back threads that reuse a thread ident.",
        design_ref="DESIGN.md §4 C15",
        note="Schedules are complete only per listed program tuple at operation granularity; sub-operation gates are sampled (bound 2); a fresh instance of the config class per schedule.",
    ),
    "C16": dict(
        technique="reference-model monitor for names: exhaustive spelling x quote style x name parts x syntactic position grid against a 12-line reference normaliser; parsed-vs-built eq/hash compatibility monitor on the live model objects",
        category="exploration",
        text="Every spelling of a table, column and alias name (case pattern x quote style the dialect lexes x 1-3 parts) is placed at every syntactic position (FROM, target, column, "
             "qualifier, alias, column list, UPDATE target beside a lower-case namesake, written-then-read across two statements) and the printed tables and column pairs are compared with the reference normaliser's prediction.",
        design_ref="DESIGN.md §4 C16",
        note="Known findings are matched only when the observation equals the defect-adjusted reference exactly; which quote characters quote identifiers is asked of the dialect's own sqlfluff grammar.",
    ),
    "C17": dict(
        technique="invariant monitor on WSGI request/response events over an exhaustively enumerated path space against a scratch tree with marker files",
        category="exploration",
        text="Every response of sqllineage.drawing.app to every enumerated path spelling x route x root setting is searched for markers of files and "
             "directory entries outside the applicable root; inside requests must still be served (vacuity guard).",
        design_ref="DESIGN.md §4 C17",
        note="os.path.realpath defines 'inside'; no symlinks; escaped exceptions are counted, not judged. Exhaustive up to the stated segment bound only.",
    ),
}

NOT_YET = {}


def main():
    props = [json.loads(l) for l in open(os.path.join(HERE, "properties.jsonl"))]
    checks = []
    na = []
    for p in props:
        pid = p["id"]
        c = CHECKS.get(pid)
        if c is None:
            na.append({"property_id": pid, "reason": NOT_YET.get(pid, "not claimed yet: its runtime monitor is designed (DESIGN.md §4) but not built/calibrated in this tree")})
            continue
        checks.append({
            "property_id": pid,
            "quick_cmd": f"/venv/bin/python check.py {pid} --tier quick",
            "thorough_cmd": f"/venv/bin/python check.py {pid} --tier thorough",
            "evidence_file": f"/verif/evidence/{pid}.json",
            "replay_cmd_template": f"/venv/bin/python check.py {pid} --replay {{path}}",
            "engine": "vlib",
            "level_claimed": {"category": c["category"], "text": c["text"], "design_ref": c["design_ref"]},
            "level_note": c["note"],
            "technique": c["technique"],
        })
    m = {
        "version": 1,
        "setup_cmd": "/venv/bin/python tools/setup_check.py",
        "hooks": {
            "guard": "REATA_SQLLINEAGE_VERIF",
            "enable": "no in-tree hooks: taps are harness-side wrappers installed at import (vlib/taps.py) plus sys.monitoring callbacks; workers export REATA_SQLLINEAGE_VERIF=1 for future guarded hooks; checks import /repo's working tree via PYTHONPATH",
            "baseline_off_cmd": "cd /repo && /venv/bin/python -m pytest -ra -q -p no:cacheprovider --timeout=900 --continue-on-collection-errors",
            "source_commits": [],
            "add_only": True,
        },
        "engines": [{"name": "vlib", "path": "/verif/vlib", "serves_properties": sorted(CHECKS),
                     "kind_free_text": "runtime monitoring: worker interpreters import the real package, taps record boundary events, oracles decide each execution on a JSON observation record"}],
        "checks": checks,
        "not_applicable": na,
        "notes": "exit 0 held / 1 VIOLATION / 2 INCONCLUSIVE (deciding monitor observed too little; never folded into held). VERIF_REPO overrides /repo for self-tests on scratch copies.",
    }
    with open(os.path.join(HERE, "MANIFEST.json"), "w") as f:
        json.dump(m, f, indent=1)
    print("claimed", sorted(CHECKS), "not_applicable", [x["property_id"] for x in na])


if __name__ == "__main__":
    main()
