#!/venv/bin/python
"""mkbreak.py NAME FILE <<< 'OLD\n===\nNEW'  : writes selftest/breaks/NAME.patch replacing OLD by NEW in /repo's FILE (HEAD version); /repo untouched."""
import difflib, subprocess, sys, os
name, file = sys.argv[1], sys.argv[2]
spec = sys.stdin.read()
old, new = spec.split("\n===\n")
old = old.strip("\n"); new = new.rstrip("\n").lstrip("\n")
src = subprocess.check_output(["git", "-C", "/repo", "show", "HEAD:" + file]).decode()
assert src.count(old) == 1, f"OLD occurs {src.count(old)} times"
dst = src.replace(old, new)
diff = "".join(difflib.unified_diff(src.splitlines(True), dst.splitlines(True), "a/" + file, "b/" + file))
out = os.path.join(os.path.dirname(os.path.dirname(os.path.abspath(__file__))), "selftest", "breaks", name + ".patch")
mode = "a" if os.path.exists(out) and "--append" in sys.argv else "w"
open(out, mode).write(diff)
print("wrote", out, len(diff.splitlines()), "lines")
