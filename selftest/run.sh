#!/bin/bash
# Regression harness for the monitors themselves (not a registered check).
# usage: selftest/run.sh [pattern]   - for every breaks/<PID>_<name>.patch matching pattern: copy /repo to a scratch
# dir outside /repo and /verif, apply the patch, run the PID's quick check with VERIF_REPO pointing there, expect exit 1.
cd "$(dirname "$0")/.."
pat="${1:-}"
fail=0
for p in selftest/breaks/*${pat}*.patch; do
  name=$(basename "$p" .patch); pid=${name%%_*}
  d=$(mktemp -d /tmp/st_XXXXXX)
  git -C /repo archive HEAD | tar -x -C "$d"
  if ! git -C "$d" init -q 2>/dev/null || ! (cd "$d" && git apply --whitespace=nowarn "$OLDPWD/$p" 2>/dev/null || patch -p1 -s < "$OLDPWD/$p"); then
    echo "SELFTEST $name: PATCH DOES NOT APPLY"; fail=1; rm -rf "$d"; continue
  fi
  tier=quick; [[ "$name" == *_THOROUGH* ]] && tier=thorough
  out=$(VERIF_REPO="$d" VERIF_SELFTEST=1 VERIF_EVIDENCE_DIR="$d/.evidence" VERIF_REPLAY_DIR="$d/.replays" /venv/bin/python check.py "$pid" --tier $tier 2>&1); rc=$?
  rm -rf "$d"
  if [ $rc -eq 1 ] && echo "$out" | grep -q "^VIOLATION property=$pid"; then echo "SELFTEST $name: caught (rc=1)"; else echo "SELFTEST $name: MISSED (rc=$rc)"; echo "$out" | tail -3; fail=1; fi
done
exit $fail
