#!/bin/bash
# Re-run the archived sub-agent changes: for every seeded/<ID>/patch.diff (or those matching $1) copy /repo's HEAD to a scratch dir outside
# /repo and /verif, apply the patch, run the demo and the property's quick check there (VERIF_REPO), expect demo exit 1 and check exit 1.
cd "$(dirname "$0")/.."
pat="${1:-}"; fail=0
for dir in seeded/*${pat}*/; do
  id=$(basename "$dir"); pid=${id%%_*}
  d=$(mktemp -d /tmp/sd_XXXXXX)
  git -C /repo archive HEAD | tar -x -C "$d"
  if ! (cd "$d" && git init -q 2>/dev/null; git apply --whitespace=nowarn "$OLDPWD/$dir/patch.diff" 2>/dev/null || patch -p1 -s < "$OLDPWD/$dir/patch.diff"); then echo "SEEDED $id: PATCH DOES NOT APPLY"; fail=1; rm -rf "$d"; continue; fi
  mkdir -p "$d/seeded"; cp "$dir/demo.py" "$d/seeded/demo.py"
  (cd "$d" && /venv/bin/python seeded/demo.py >/dev/null 2>&1); demo=$?
  out=$(VERIF_REPO="$d" VERIF_EVIDENCE_DIR="$d/.evidence" VERIF_REPLAY_DIR="$d/.replays" /venv/bin/python check.py "$pid" --tier ${TIER:-quick} 2>&1); rc=$?
  rm -rf "$d"
  if [ $rc -eq 1 ] && [ $demo -eq 1 ]; then echo "SEEDED $id: caught (demo exit $demo, check rc=$rc)"; else echo "SEEDED $id: NOT CAUGHT (demo exit $demo, check rc=$rc)"; echo "$out" | tail -2; fail=1; fi
done
exit $fail
