#!/venv/bin/python
"""check.py <ID> [--tier quick|thorough] [--replay FILE]
exit 0 held on everything explored | 1 VIOLATION | 2 INCONCLUSIVE (deciding monitor observed too little)"""
import argparse
import importlib
import os
import sys

HERE = os.path.dirname(os.path.abspath(__file__))
sys.path.insert(0, HERE)
sys.dont_write_bytecode = True


def main():
    ap = argparse.ArgumentParser()
    ap.add_argument("pid")
    ap.add_argument("--tier", default=os.environ.get("VERIF_TIER", "quick"), choices=["quick", "thorough"])
    ap.add_argument("--replay", default=None)
    a = ap.parse_args()
    os.chdir(HERE)
    mod = importlib.import_module("checks." + a.pid.lower())
    if a.replay:
        rc = mod.replay(a.replay)
    else:
        rc = mod.run(a.tier)
    sys.stdout.flush()
    sys.exit(rc)


if __name__ == "__main__":
    main()
