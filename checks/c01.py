"""C01 - single-statement table lineage is exact (reference-model monitor over the core-grammar generator)."""
import random

from vlib import evidence, sqlgen
from vlib.pool import Pool
from . import common

PID = "C01"
RULE = ("statement = AST of the core grammar (bounded-exhaustive: statement kind x FROM shape x sub-query hole at depth 1, hole-complete depth 2 in thorough; seeded random to depth 3-4) "
        "rendered to SQL and analysed under sqlfluff dialects; the statement tap's read/write sets and the public source/target tables must equal the AST's own meaning; "
        "non-trivial = accepted by the dialect and (reads or writes non-empty, or a no-lineage kind); distinct by (SQL text, dialect)")

ALL_DIALECTS = None


def dialects():
    global ALL_DIALECTS
    if ALL_DIALECTS is None:
        from sqlfluff.core import dialect_readout

        ALL_DIALECTS = [d.label for d in dialect_readout()]
    return ALL_DIALECTS


def build(tier, rnd):
    """[(key, stmt, dialects)]"""
    out = []
    d1 = sqlgen.enumerate_depth1(0)
    alld = dialects()
    if tier == "quick":
        for key, st in d1:
            out.append((key, st, ["ansi"]))
        g = sqlgen.Gen(random.Random(common.env.seed() * 7919 + 1), scalar_p=0.1)
        rot = [alld[(common.env.seed() * 3 + i) % len(alld)] for i in range(3)]
        for i in range(700):
            st = g.statement(rnd.choice([1, 2, 2, 3]))
            out.append((("random", i), st, ["ansi", rot[i % 3]] if i % 2 else [rot[i % 3]]))
        # every dialect sees a slice of depth-1 shapes
        for i, (key, st) in enumerate(d1[::9]):
            out.append((key, st, [alld[i % len(alld)]]))
    else:
        for key, st in d1:
            out.append((key, st, alld))
        for key, st in sqlgen.enumerate_depth2(0):
            out.append((key, st, ["ansi"] + [alld[(hash(str(key)) + k) % len(alld)] for k in range(2)]))
        g = sqlgen.Gen(random.Random(common.env.seed() * 7919 + 1), scalar_p=0.1)
        for i in range(5000):
            st = g.statement(rnd.choice([2, 3, 3, 4]))
            out.append((("random", i), st, ["ansi", alld[i % len(alld)], alld[(i * 7 + 3) % len(alld)]]))
    out += same_alias_and_case_cases(9 if tier == "quick" else 60, common.env.seed() * 31 + 5)
    out += paren_setop_cases(15 if tier == "quick" else 100, common.env.seed() * 37 + 5)
    out += recursive_cte_cases(6 if tier == "quick" else 40, common.env.seed() * 41 + 5)
    out += update_shape_cases(12 if tier == "quick" else 80, common.env.seed() * 43 + 5)
    out += self_read_cases(20 if tier == "quick" else 150, common.env.seed() * 61 + 3)
    out += dialect_name_cases(10 if tier == "quick" else 60, common.env.seed() * 47 + 1)
    # statement kinds that only some dialects accept are always shown to dialects that do
    g2 = sqlgen.Gen(random.Random(99))
    for i in range(6):
        out.append((("copy", i), g2.statement(0, kinds=["copy"]), ["postgres", "redshift", "snowflake"]))
        out.append((("update_from", i), g2.statement(1, kinds=["update_from"]), ["postgres", "ansi", "tsql"]))
        out.append((("merge", i), g2.statement(1, kinds=["merge"]), ["ansi", "snowflake", "bigquery"]))
        out.append((("create_like", i), g2.statement(0, kinds=["create_like"]), ["mysql", "sparksql", "hive"]))
    return out


def same_alias_and_case_cases(n, seed):
    """valid statements in which different sub-queries carry the same alias (each visible in its own set-operation branch only), and
    scalar sub-queries in several THEN arms of one aliased CASE item"""
    from checks.c02 import same_alias_cases
    from vlib.sqlgen import Base, E, Group, Item, Select, Stmt, col
    out = [(key, st, ds) for key, st, ds in same_alias_cases(n, seed)]
    rnd = random.Random(seed + 7)
    for i in range(n):
        arms = []
        for j in range(rnd.choice([2, 2, 3])):
            sc = E("scalar", query=Select([Item(E("func", col(f"c_{j + 1}"), fname="max"), None)], [Group(Base(f"tb_ct{i}_{j}", rnd.choice([None, "sa"])))]))
            sc.then_operand = True
            arms += [col("k_1", None), sc]
        q = Select([Item(col("c_9")), Item(E("case_multi", *arms), "v")], [Group(Base(f"tb_cf{i}"))])
        kind = rnd.choice(["insert", "ctas", "create_view"])
        out.append((("case_then", i), Stmt(kind, Base(f"tb_cw{i}", rnd.choice([None, "sb"])), q), ["ansi", rnd.choice(["postgres", "snowflake", "mysql", "sparksql", "tsql", "bigquery"])]))
    return out


def paren_setop_cases(n, seed):
    """parenthesised set operations where a single relation / sub-query is expected: as predicate sub-query (IN / EXISTS / scalar comparison),
    as derived table, and as the first relation of a parenthesised join group (alone or after a plain table)"""
    from vlib.sqlgen import Base, Derived, Group, Item, Nested, P, Select, SetOp, Stmt, col
    rnd = random.Random(seed + 11)
    out = []
    for i in range(n):
        def branch(j):
            return Select([Item(col("c_1"), "o_1")], [Group(Base(f"tb_ps{i}_{j}", rnd.choice([None, "sa"])))])
        so = SetOp(rnd.choice(["union", "union all", "intersect", "except"]), [branch(j) for j in range(rnd.choice([2, 3]))], paren=True)
        outer = Base(f"tb_po{i}", None, "x1")
        k = i % 5
        if k < 3:
            pk = ["in", "exists", "scalar"][k]
            q = Select([Item(col("c_2", "x1"))], [Group(outer)], where=P(pk, colref=col("c_3", "x1"), query=so))
        elif k == 3:
            q = Select([Item(col("o_1", "dq1"))], [Group(outer, [("inner", Derived(so, "dq1"), "on")])])
        else:
            other = Base(f"tb_pz{i}", None, None)
            q = Select([Item(col("o_1", "dq1"))], [Group(outer, [(rnd.choice(["left", "right", "inner"]), Nested(Group(Derived(so, "dq1"), [("full", other, "on")])), "on")])])
        kind = rnd.choice(["insert", "ctas", "bare"])
        out.append((("paren_setop", i), Stmt(kind, Base(f"tb_pw{i}") if kind != "bare" else None, q), ["ansi", rnd.choice(["athena", "postgres", "mysql", "snowflake", "sparksql", "trino"])]))
    return out


def recursive_cte_cases(n, seed):
    """a CTE that references itself in its own body, written without the RECURSIVE keyword (the only form tsql, oracle and db2 have,
    optional under snowflake and sqlite): the self reference is the CTE, never a table"""
    from vlib.sqlgen import Base, CteRef, Group, Item, Select, SetOp, Stmt, With, col
    rnd = random.Random(seed + 13)
    out = []
    for i in range(n):
        emp = lambda a=None: Base(f"tb_re{i}", rnd.choice(["sa", None]) if a is None else "sa", a)  # noqa: E731
        nm = f"wq_r{i}"
        anchor = Select([Item(col("c_1")), Item(col("c_2"))], [Group(emp())])
        rec = Select([Item(col("c_1", "e")), Item(col("c_2", nm))], [Group(Base(f"tb_rf{i}", None, "e"), [("inner", CteRef(nm), "on")])])
        body = Select([Item(col("c_1", nm)), Item(col("c_2", nm))], [Group(CteRef(nm))] if i % 2 else [Group(CteRef(nm), [("left", Base(f"tb_rg{i}", "sb"), "on")])])
        q = With([(nm, SetOp("union all", [anchor, rec]))], body)
        kind = rnd.choice(["insert", "ctas", "bare", "create_view"])
        out.append((("recursive_cte", i), Stmt(kind, Base(f"tb_rw{i}", rnd.choice([None, "sb"])) if kind != "bare" else None, q), ["tsql", "snowflake", rnd.choice(["oracle", "db2", "sqlite"])]))
    return out


def self_read_cases(n, seed):
    """the statement reads its own target inside a nested query (IN sub-query, CTE body, derived table, scalar sub-query of an UPDATE): the table is
    both a source and the target"""
    from vlib.sqlgen import Base, CteRef, Derived, E, Group, Item, P, Select, Stmt, With, col
    rnd = random.Random(seed)
    out = []
    for i in range(n):
        T = Base(f"tb_sr{i}", rnd.choice([None, "sa"]))
        again = lambda al=None: Base(T.name, T.schema, al)  # noqa: E731
        S = Base(f"tb_ss{i}", rnd.choice([None, "sb"]), f"s{i}")
        inner = Select([Item(col("k_1"))], [Group(again())])
        k = i % 6
        ds = ["ansi", rnd.choice(["postgres", "snowflake", "sparksql", "bigquery", "mysql", "tsql"])]
        if k == 0:
            st = Stmt("insert", T, Select([Item(col("c_1", S.key()))], [Group(S)], where=P(rnd.choice(["in", "exists"]), colref=col("k_1", S.key()), query=inner)))
        elif k == 1:
            w = f"wq_s{i}"
            st = Stmt(rnd.choice(["insert", "ctas"]), T, With([(w, inner)], Select([Item(col("k_1", w))], [Group(CteRef(w), [("inner", S, "on")])])))
        elif k == 2:
            st = Stmt(rnd.choice(["insert", "ctas", "create_view"]), T, Select([Item(col("k_1", "dq"))], [Group(Derived(inner, "dq"), [("inner", S, "on")])]))
        elif k == 3:
            sub = Select([Item(E("func", col("c_1"), fname="max"), "m")], [Group(again())])
            st = Stmt("update", T, None, None, {"set": [("c_1", E("scalar", query=sub))], "from": [], "where": None})
            ds = ["ansi", "postgres"]
        elif k == 4:
            st = Stmt("update", T, None, None, {"set": [("c_1", col("c_2", S.key()))], "from": [Group(S)], "where": P("in", colref=col("k_1", S.key()), query=Select([Item(col("k_1", "x"))], [Group(again("x"))]))})
            ds = ["ansi", "postgres"]
        else:
            deep = Select([Item(col("k_1", "d2"))], [Group(Derived(Select([Item(col("k_1"))], [Group(S)], where=P("in", colref=col("k_1"), query=inner)), "d2"))])
            st = Stmt("merge", T, None, None, {"source": Derived(deep, "m"), "update": [("c_1", "k_1")], "insert": []})
            ds = ["ansi", "snowflake"]
        out.append((("self_read", i), st, ds))
    return out


def dialect_name_cases(n, seed):
    """table names in spellings single dialects have, at every nesting depth the generator offers: bigquery project ids with dashes (unquoted),
    an empty schema part under tsql / snowflake (db..t), four-part tsql names"""
    rnd = random.Random(seed)
    forms = [("bigquery", ["my-proj.ds", "other-proj-2.ds_b", "p-1.d"]), ("tsql", ["db1.", "srv.db2.sch", "db3."]), ("snowflake", ["db1.", "db2.", "db3.sc"])]
    out = []
    for i in range(n):
        d, schemas = forms[i % len(forms)]
        g = sqlgen.Gen(random.Random(seed * 31 + i), schemas=tuple(schemas), qualify_p=0.8)
        st = g.statement(rnd.choice([1, 1, 2]), kinds=["insert", "ctas", "create_view", "bare", "insert_cols", "with_insert"])
        out.append((("dialect_names", i), st, [d]))
    return out


def update_shape_cases(n, seed):
    """UPDATE shapes: the target shares its bare name with a schema-qualified source; SET targets qualified by the target's own name;
    sources joined / comma separated / derived; sub-queries in SET and WHERE"""
    from vlib.sqlgen import Base, Derived, Group, Item, P, Select, Stmt, col
    rnd = random.Random(seed + 17)
    out = []
    for i in range(n):
        nm = f"tb_un{i}"
        tgt = Base(nm, rnd.choice([None, None, "sb"]))
        k = i % 4
        if k == 0:
            srcs = [Group(Base(nm, "sa", f"s{i}"))]  # namesake of the target in another schema, aliased
        elif k == 1:
            srcs = [Group(Base(nm, "sa" if tgt.schema != "sa" else "sb", None), [("inner", Base(f"tb_uj{i}", None, f"j{i}"), "on")])]  # namesake, un-aliased, joined
        elif k == 2:
            srcs = [Group(Base(f"tb_ua{i}", None, f"a{i}")), Group(Base(nm, "sa", f"b{i}"))]
        else:
            srcs = [Group(Derived(Select([Item(col("c_1")), Item(col("c_2"))], [Group(Base(nm, "sa"))]), f"d{i}"))]
        first = srcs[0].rels()[0]
        sets = [("c_1", col("c_1", first.key()))]
        where = P("in", colref=col("k_1", first.key()), query=Select([Item(col("k_1"))], [Group(Base(f"tb_uw{i}", rnd.choice([None, "sa"])))])) if i % 2 else None
        out.append((("update_shape", i), Stmt("update", tgt, None, None, {"set": sets, "from": srcs, "where": where}), ["ansi", rnd.choice(["postgres", "snowflake", "tsql", "redshift", "sqlite"])]))
        if i % 3 == 0:
            # T-SQL idiom: the target is named by the alias the FROM clause gives it; the other FROM items are the sources (tsql only: elsewhere
            # the same text names a table called like the alias, or is rejected for the duplicate name)
            al = f"x{i}"
            others = [Group(Base(f"tb_ua{i}", rnd.choice([None, "sa"]), f"a{i}"))]
            out.append((("update_alias_target", i), Stmt("update", tgt, None, None, {"set": [("c_1", col("c_1", f"a{i}"))], "from": others, "where": where, "alias_target": al}), ["tsql"]))
    return out


SELECT_INTO_DIALECTS = {"ansi", "tsql", "postgres", "redshift", "greenplum"}
SUPPORTED_KINDS = {"insert", "insert_cols", "ctas", "create_view", "select_into", "update", "merge", "copy", "bare", "insert_values", "create_like"}


GENERIC = [("where.in_subquery_comma_join", "KF-32")]
# per-dialect blind spots: "<dialect>:<mechanism>" -> finding id (the mechanism is a risk tag of the AST, or kind:target / kind:source / kind:unsupported)
DIALECT = {"clickhouse:where.subquery": "KF-14a", "clickhouse:update.where_subquery": "KF-14a", "clickhouse:having.subquery": "KF-14a", "clickhouse:from.mixed_comma_join_any": "KF-14a", "exasol:create_view:target": "KF-14b",
           "impala:ctas:unsupported": "KF-14c", "exasol:create_like:source": "KF-14d", "vertica:create_like:unsupported": "KF-14d",
           **{f"{d}:where.exists_setop_paren": "KF-14i" for d in ("bigquery", "databricks", "sparksql", "sqlite", "trino")}}


def classify(stmt, dialect, exp, obs_read, obs_write, ds=None):
    """-> list of finding ids that together explain the deviation, or None.
    Only 'sources lost under tagged AST mechanisms' (+ a listed per-dialect lost target/source) is recognised: any extra table,
    any wrong target, any loss outside the tagged nodes stays a violation."""
    lost = set(exp["read"]) - set(obs_read)
    extra = set(obs_read) - set(exp["read"])
    if stmt.kind == "update" and stmt.extra.get("alias_target") and dialect == "tsql":
        # KF-42: the alias is reported as the written table (completed with the default schema), the table it stands for as one more source
        phantom = f"{ds or '<default>'}.{stmt.extra['alias_target']}"
        if list(obs_write) == [phantom] and not lost and extra == set(exp["write"]):
            return ["KF-42"]
        return None
    if extra:
        return None
    ids = []
    if set(obs_write) != set(exp["write"]):
        k = f"{dialect}:{stmt.kind}:target"
        if obs_write == [] and k in DIALECT:
            ids.append(DIALECT[k])
        else:
            return None
    if lost:
        risk = sqlgen.risk(stmt, ds)
        remaining = set(lost)
        if stmt.kind == "create_like" and f"{dialect}:create_like:source" in DIALECT:
            ids.append(DIALECT[f"{dialect}:create_like:source"])
            remaining -= set(exp["read"])
        for tag, kfid in GENERIC + [(k.split(":", 1)[1], v) for k, v in DIALECT.items() if k.startswith(dialect + ":") and k.count(":") == 1]:
            r = set(risk.get(tag, []))
            if remaining & r:
                ids.append(kfid)
                remaining -= r
        if remaining:
            return None
    return ids or None


def run(tier):
    run_ = evidence.Run(PID, tier, rule=RULE)
    rnd = common.rng("c01")
    items = build(tier, rnd)
    cases = []
    meta = []
    for key, st, ds in items:
        sql = sqlgen.render(st)
        exp = sqlgen.expected(st)
        for d in ds:
            if not common.is_core_for(d, exp["tags"]):
                continue  # the dialect's grammar does not know this join form (it would parse the keyword as an alias)
            if st.kind == "select_into" and d not in SELECT_INTO_DIALECTS:
                continue  # elsewhere SELECT ... INTO assigns variables / writes files: not the core statement
            cases.append({"sql": sql, "dialect": d, "want": []})
            meta.append((key, st, exp, None))
        # the same statement under a configured default schema (scoped override): unqualified names are completed, local names stay local
        if len(cases) % 7 == 0 and st.kind not in ("copy",):
            d0 = ds[0]
            if common.is_core_for(d0, exp["tags"]) and not (st.kind == "select_into" and d0 not in SELECT_INTO_DIALECTS):
                cases.append({"sql": sql, "dialect": d0, "want": [], "config": {"DEFAULT_SCHEMA": "zs_d"}})
                meta.append((key, st, sqlgen.expected(st, "zs_d"), "zs_d"))
    for k in ("statements_compared", "extractors_seen"):
        run_.need(k)
    with Pool() as pool:
        recs = pool.map("vlib.observe:run_case", cases, timeout=180, progress=20000 if tier == "thorough" else None)
    common.check_taps(run_, recs)
    extractors = set()
    tagcov = {}
    rejected = {}
    for case, (key, st, exp, dsch), (s, r) in zip(cases, meta, recs):
        b = {"sql": case["sql"], "dialect": case["dialect"], **({"config": case["config"]} if case.get("config") else {}), "tags": [t for t in exp["tags"] if t.startswith(("stmt.", "from.", "where.", "select.", "having.", "setop.", "with.", "update.", "merge."))]}
        if not run_.pool_status(s, r, b):
            run_.case()
            continue
        d = case["dialect"]
        if r["outcome"] != "ok":
            et = r["outcome"]["exc_type"]
            if et == "InvalidSyntaxException":
                rejected[d] = rejected.get(d, 0) + 1
                run_.case()
                continue
            if et == "UnsupportedStatementException" and (st.kind in SUPPORTED_KINDS or st.kind in ("delete", "delete_sub", "truncate", "use")):
                run_.case(evidence.sha((case["sql"], d)), nontrivial=True)
                run_.judge(b, "supported_kind_reported_unsupported", r["outcome"]["message"], kf_id=DIALECT.get(f"{d}:{st.kind}:unsupported"))
                continue
            if et == "UnsupportedStatementException":
                rejected[d] = rejected.get(d, 0) + 1
                run_.case()
                continue
            run_.case(evidence.sha((case["sql"], d)), nontrivial=True)
            run_.judge(b, "analysis_raised:" + et, r["outcome"], kf_id=None)
            continue
        for x in r.get("dispatch", []):
            extractors.add(x[0])
        nontrivial = bool(exp["read"] or exp["write"] or st.kind in sqlgen.Stmt.NO_LINEAGE)
        run_.case(evidence.sha((case["sql"], d, case.get("config"))), nontrivial=nontrivial,
                  sample={"sql": case["sql"], "dialect": d, "expected_read": exp["read"], "expected_write": exp["write"]} if len(run_.samples) < 5 and len(exp["read"]) > 2 else None)
        run_.observe("statements_compared")
        for t in exp["tags"]:
            tagcov[t] = tagcov.get(t, 0) + 1
        ps = r["per_statement"]
        if len(ps) != 1 or "facts" not in ps[0]:
            run_.inconc(f"statement tap saw {len(ps)} statements")
            continue
        f = ps[0]["facts"]
        obs_read, obs_write = f["read"], f["write"]
        exp_src = sorted(exp["read"])
        exp_tgt = sorted(exp["write"])
        ok = obs_read == exp["read"] and obs_write == exp["write"] and sorted(r["source"]) == exp_src and sorted(r["target"]) == exp_tgt and not r["intermediate"]
        if ok:
            continue
        det = {"expected": {"read": exp["read"], "write": exp["write"]}, "observed": {"read": obs_read, "write": obs_write, "source": r["source"], "target": r["target"],
                                                                                     "intermediate": r["intermediate"], "cte": f["cte"]}}
        kfid = None
        # the public views must agree with the per-statement facts even under a known finding
        views_consistent = set(r["source"]) | set(r["target"]) == set(obs_read) | set(obs_write) and set(r["target"]) == set(obs_write)
        if views_consistent:
            ids = classify(st, d, exp, obs_read, obs_write, dsch)
            if ids and all(run_.kf_listed(i) for i in ids):
                kfid = ids[0]
                for extra_id in ids[1:]:
                    run_.counters["also_" + extra_id] += 1
        run_.judge(b, "table_lineage_differs", det, kf_id=kfid)
    run_.observe("extractors_seen", len(extractors))
    need = {"SelectExtractor", "CreateInsertExtractor", "CteExtractor", "UpdateExtractor", "MergeExtractor", "CopyExtractor", "NoopExtractor"}
    if not need <= extractors:
        run_.inconc(f"extractors never exercised: {sorted(need - extractors)}")
    run_.extra.update({"extractors_seen": sorted(extractors), "feature_tag_coverage": dict(sorted(tagcov.items())), "not_accepted_by_dialect": rejected,
                       "dialects": sorted({c["dialect"] for c in cases})})
    run_.assumptions = ["the generator's structural semantics is the reference (core grammar only; identifiers are keywords in no dialect)",
                        "a dialect that raises InvalidSyntaxException does not accept the statement (counted, not judged)"]
    return run_.finish()


def replay(path):
    rep = common.load_replay(path)
    c = rep["case"]
    with Pool(1) as pool:
        st, r = pool.call(0, "vlib.observe:run_case", {"sql": c["sql"], "dialect": c["dialect"], "want": []}, timeout=180)
    exp = rep["detail"].get("expected") if isinstance(rep["detail"], dict) else None
    print(st, r.get("per_statement"), r.get("source"), r.get("target"))
    bad = False
    if exp and st == "ok" and r["outcome"] == "ok":
        f = r["per_statement"][0]["facts"]
        bad = f["read"] != exp["read"] or f["write"] != exp["write"]
    if bad:
        print(f"VIOLATION property={PID} replay={path}")
    return 1 if bad else 0
