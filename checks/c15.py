"""C15 - configuration overrides are scoped and thread-local.
History monitor with a per-thread sequential model under a controlled scheduler (vlib/sched.py)."""
import itertools
import json
import subprocess

from vlib import env, evidence, sched
from vlib.pool import NCPU
from . import common

PID = "C15"
RULE = ("schedule = one interleaving of 2-3 real threads running catalog programs over {open, open with unknown key (both orders), nested open, read, "
        "raise-in-scope, close, direct assignment}; op-level interleavings enumerated exhaustively per program tuple; line-level pre-emption "
        "(sys.monitoring LINE gates inside config.py, bound 2) sampled; thread-ident reuse driven by back-to-back threads; "
        "non-trivial = distinct (programs, gate sequence); every read and accept/reject outcome is compared with the per-thread model")

ENVS = [{}, {"DEFAULT_SCHEMA": "envs", "TSQL_NO_SEMICOLON": "true"}]


def plan(tier, rnd):
    n = len(sched.CATALOG)
    pairs = list(itertools.combinations_with_replacement(range(n), 2))
    small = [i for i, p in enumerate(sched.CATALOG) if len(sched.expand(p)) <= 4]
    triples = list(itertools.combinations_with_replacement(small, 3))
    rnd.shuffle(triples)
    jobs = []
    if tier == "quick":
        tri = triples[:8]
        line_pairs = rnd.sample(pairs, 60)
        per_tuple = 25
    else:
        tri = triples[:120]
        line_pairs = pairs
        per_tuple = 40
    for e in ENVS:
        for chunk in chunks(pairs, 14):
            jobs.append({"mode": "exhaustive", "tuples": chunk, "env": e, "kind": "pairs", "seed": env.seed(),
                         "max_interleavings": 1200 if tier == "quick" else None})
        for chunk in chunks(tri, 1):
            jobs.insert(0, {"mode": "exhaustive", "tuples": chunk, "env": e, "kind": "triples", "seed": env.seed(),
                            "max_interleavings": 4000 if tier == "quick" else None})
        # ident reuse: every ordered pair, second thread starts after the first has been joined
        allord = [list(t) for t in itertools.product(range(n), repeat=2)]
        for chunk in chunks(allord, 200):
            jobs.append({"mode": "reuse", "tuples": chunk, "env": e, "kind": "reuse"})
        for chunk in chunks(line_pairs, 12):
            jobs.append({"mode": "lines", "tuples": chunk, "env": e, "per_tuple": per_tuple, "seed": env.seed(), "kind": "lines"})
    return jobs, len(pairs), len(tri)


def chunks(xs, n):
    xs = [list(x) for x in xs]
    return [xs[i:i + n] for i in range(0, len(xs), n)]


def run_jobs(jobs, timeout):
    out = []
    pending = list(jobs)
    running = []
    while pending or running:
        while pending and len(running) < NCPU:
            a = pending.pop(0)
            p = subprocess.Popen([env.PY, "-m", "vlib.sched", json.dumps({k: v for k, v in a.items() if k != "kind"})],
                                 stdout=subprocess.PIPE, stderr=subprocess.DEVNULL, cwd=env.VERIF, env=env.child_env("0"))
            running.append((a, p))
        a, p = running.pop(0)
        try:
            o, e = p.communicate(timeout=timeout)
            if p.returncode == 0 and o.strip():
                out.append((a, json.loads(o.decode().strip().splitlines()[-1]), None))
            else:
                out.append((a, None, f"exit {p.returncode}"))
        except subprocess.TimeoutExpired:
            p.kill()
            p.communicate()
            out.append((a, None, "timeout"))
    return out


def run(tier, jobs=None):
    run_ = evidence.Run(PID, tier, rule=RULE)
    rnd = common.rng("c15")
    npairs = ntri = 0
    if jobs is None:
        jobs, npairs, ntri = plan(tier, rnd)
    results = run_jobs(jobs, 900 if tier == "quick" else 3600)
    for k in ("reads_checked", "ident_reuse_observed", "line_gates_hit", "op_level_schedules"):
        run_.need(k)
    tot = {}
    for a, res, err in results:
        if res is None:
            run_.inconc(f"job {a.get('kind')}: {err}")
            run_.case()
            continue
        for k in ("schedules", "distinct_interleavings", "steps", "reads", "line_gates", "ident_reuse", "line_events", "program_tuples", "exhaustive_tuples", "sampled_tuples"):
            tot[k] = tot.get(k, 0) + res.get(k, 0)
        tot["line_sites"] = max(tot.get("line_sites", 0), res["line_sites"])
        run_.counters["schedules_" + a.get("kind", "?")] += res["schedules"]
        run_.observe("reads_checked", res["reads"])
        run_.observe("ident_reuse_observed", res["ident_reuse"])
        run_.observe("line_gates_hit", res["line_gates"])
        if a["mode"] == "exhaustive":
            run_.observe("op_level_schedules", res["schedules"])
        for note in res["inconclusive"]:
            run_.inconc(note)
        for v in res["violations"]:
            case = {"job": {k: a[k] for k in ("mode", "env")}, "programs": v["programs"], "order": v["order"], "phases": v["phases"], "plans": v["plans"]}
            run_.judge(case, "config:" + v["kind"], {"bad": v["bad"], "log": v["log"], "trace": v["trace"]}, kf_id=None)
        if res["violations_total"] > len(res["violations"]):
            run_.counters["violations_not_listed_individually"] += res["violations_total"] - len(res["violations"])
    run_.evaluations = tot.get("schedules", 0)
    run_.nontrivial = set(range(tot.get("distinct_interleavings", 0)))
    run_.samples = [{"programs": [sched.CATALOG[3], sched.CATALOG[0]], "order": [0, 1, 0, 1, 1, 0, 1, 1],
                     "meaning": "thread0: open(DEFAULT_SCHEMA=x, NOPE=1) rejected; read | thread1: open(DEFAULT_SCHEMA=a); read; close; read"},
                    {"catalog": sched.CATALOG}]
    run_.exhaustive = False
    run_.extra.update({"totals": tot, "pair_tuples_exhaustive_per_env": npairs, "triple_tuples_exhaustive_per_env": ntri, "envs": ENVS,
                       "exhaustive_note": "op-level interleavings are complete for every listed program tuple (all pairs of the catalog; a seeded subset of triples); line-level gates are sampled"})
    run_.assumptions = ["a fresh instance of the config class is used per schedule (same class, same code) so schedules do not contaminate each other",
                        "the model's coercion rule (str(); int!=0 or truthy words for bool) is the documented one",
                        "programs always leave their scope before the thread ends, as the with-statement guarantees"]
    return run_.finish()


def replay(path):
    rep = common.load_replay(path)
    c = rep["case"]
    job = {"mode": "exhaustive" if c.get("order") else ("reuse" if c.get("phases") else "lines"), "env": c["job"]["env"], "kind": "replay",
           "tuples": [[sched.CATALOG.index(p) for p in c["programs"]]], "per_tuple": 200, "seed": rep.get("seed", 0)}
    return run("quick", jobs=[job])
