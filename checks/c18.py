"""C18 - the graph export is faithful to the lineage graph (invariant monitor on every export)."""
from vlib import kf
from . import c06

PID = "C18"
RULE = ("cases = harvested test-suite SQL + TPC-DS + generated scripts, both export levels and the text summary; "
        "non-trivial = analysis returned and at least one exported node was compared with the graph; distinct by (sql, dialect, metadata)")


def run(tier):
    return c06.run(tier, pid=PID, prefix="C18.", matcher=kf.c18, rule=RULE,
                   count_keys=("c18_table_nodes", "c18_column_nodes", "c18_summaries"))


def replay(path):
    return c06.replay(path)
