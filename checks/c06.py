"""C06 - column lineage is well-formed and consistent with table lineage (invariant monitor on every result)."""
from vlib import evidence, kf
from vlib.pool import Pool
from . import common

PID = "C06"
PREFIX = "C06."
RULE = ("cases = harvested test-suite SQL (21 dialects, with the suite's metadata) + bundled TPC-DS + generated scripts; "
        "non-trivial = analysis returned and the invariant monitor examined at least one column path or graph node; "
        "distinct by (sql, dialect, metadata)")


def workload(tier):
    cases = common.corpus_cases(tier)
    try:
        from . import genload
        cases += genload.cases_for_invariants(tier)
    except ImportError:
        pass
    return cases


def sequences(tier):
    """several analyses one after the other in one process: same sub-query text under different aliases, same statement under different
    dialects, growing scripts"""
    out = []
    bodies = ["select a, b from src", "select x.k, x.v from sa.t1 x join sb.t2 y on x.k = y.k", "select max(c1) as m from t3 group by c2"]
    for i, body in enumerate(bodies):
        seq = []
        for al in ("sq", "dt", "zz%d" % i):
            seq.append({"sql": f"insert into tgt{i} select {al}.* from ({body}) {al}", "dialect": "ansi", "want": ["inv"]})
            seq.append({"sql": f"with {al} as ({body}) insert into tgt{i} select * from {al}", "dialect": "ansi", "want": ["inv"]})
        out.append(seq)
    out.append([{"sql": "insert overwrite table tab1 select col1 from tab2", "dialect": d, "want": ["inv"]} for d in ("sparksql", "hive", "ansi", "postgres", "sparksql")])
    # the same text analysed again under another default schema (scoped override, environment, none): whatever is remembered per text must not
    # carry a schema over - sub-queries in select items, FROM, WHERE and CTEs over unqualified tables
    texts = ["insert into rpt select o.id, o.amount * (select max(rate) from fx) as eur from orders o; insert into summ select eur from rpt",
             "create table rpt as select case when o.k > 0 then (select min(r.v) from ref_t r) else 0 end as c, coalesce((select 1 from dual_t), o.z) as d from orders o",
             "insert into rpt select d.a from (select a from base_t) d where d.a in (select a from filt_t); insert into rpt2 select a from rpt",
             "with w as (select a, b from base_t) insert into rpt select w.a, (select count(x) from cnt_t) as n from w"]
    for i, t in enumerate(texts):
        for d in ("ansi", "non-validating") if i % 2 == 0 else ("ansi",):
            out.append([{"sql": t, "dialect": d, "want": ["inv"], **cfg} for cfg in ({"config": {"DEFAULT_SCHEMA": "staging"}}, {}, {"env": {"SQLLINEAGE_DEFAULT_SCHEMA": "mart"}},
                                                                                   {"config": {"DEFAULT_SCHEMA": "zz"}}, {})])
    out.append([{"sql": ";".join(["insert into t%d select c from t%d" % (k + 1, k) for k in range(n)]), "dialect": "ansi", "want": ["inv"]} for n in (1, 2, 3, 2, 1)])
    return out


def judge(run, case, rec, prefix, matcher):
    n = 0
    for f in rec.get("inv", []):
        if not f["inv"].startswith(prefix):
            continue
        n += 1
        run.judge(common.brief(case), f["inv"], f, kf_id=matcher(case, f))
    return n


def run(tier, pid=PID, prefix=PREFIX, matcher=kf.c06, rule=RULE, count_keys=("c06_paths", "c06_nodes")):
    run_ = evidence.Run(pid, tier, rule=rule)
    cases = workload(tier)
    run_.need("invariant_evaluations")
    seqs = sequences(tier)
    with Pool() as pool:
        recs = pool.map("vlib.observe:run_case", cases, timeout=180)
        sres = pool.map("vlib.observe:run_sequence", seqs, timeout=300)
    # runs that follow other runs in the same process (module-level caches, leftovers) are judged like any other
    for seq, (st, rs) in zip(seqs, sres):
        for k, c in enumerate(seq):
            cases.append(dict(c, src="sequence"))
            recs.append((st, rs[k] if st == "ok" else rs))
    common.check_taps(run_, recs)
    outcomes = {}
    for case, (st, rec) in zip(cases, recs):
        if not run_.pool_status(st, rec, common.brief(case)):
            run_.case()
            continue
        ok = rec["outcome"] == "ok"
        counts = rec.get("inv_counts", {})
        examined = sum(counts.get(k, 0) for k in count_keys)
        run_.case(common.case_key(case), nontrivial=ok and examined > 0,
                  sample={"case": common.brief(case), "paths": rec.get("column_paths", [])[:3], "inv_counts": counts} if ok and counts.get("c06_paths") else None)
        o = "ok" if ok else rec["outcome"]["exc_type"]
        outcomes[o] = outcomes.get(o, 0) + 1
        if ok:
            run_.observe("invariant_evaluations", examined)
            for k, v in counts.items():
                if k.startswith(prefix.lower().replace(".", "_")):
                    run_.counters[k] += v
            judge(run_, case, rec, prefix, matcher)
    run_.extra["outcomes"] = outcomes
    run_.extra["dialects"] = sorted({c["dialect"] for c in cases})
    run_.assumptions = ["the statement tap (wrapper on LineageAnalyzer.analyze) and the assemble tap (wrapper on SQLLineageHolder.of) see every top-level call",
                        "sqlfluff's parser is used only to classify known-finding mechanisms on corpus inputs"]
    return run_.finish()


def replay(path):
    rep = common.load_replay(path)
    case = dict(rep["case"])
    case["want"] = ["inv"]
    with Pool(1) as pool:
        st, rec = pool.call(0, "vlib.observe:run_case", case, timeout=180)
    print(st, [f for f in (rec or {}).get("inv", [])])
    bad = [f for f in (rec or {}).get("inv", []) if f["inv"] == rep["kind"]]
    if bad:
        print(f"VIOLATION property={rep['property']} replay={path}")
        return 1
    return 0
