"""C09 - dialects and both parsers agree on core SQL (differential monitor, ground truth as referee)."""
import collections
import random

from vlib import evidence, sqlgen
from vlib.pool import Pool
from . import common, c01, c02

PID = "C09"
RULE = ("each generated core statement is analysed under all 28 sqlfluff dialects and the non-validating analyzer; among the dialects that accept it the table lineage and the "
        "column pairs must be identical, and the non-validating analyzer must report the same table lineage; the AST's own meaning tells which side deviates; "
        "non-trivial = statement accepted by at least 2 analyzers; distinct by SQL text")

# the legacy analyzer's own table-level blind spots (mechanism tag -> finding)
SQLPARSE = {"from.mixed_comma_join_any": "KF-14f", "where.subquery_under_bool": "KF-14f", "having.subquery": "KF-14f",
            "setop.paren_later_branches": "KF-14f", "setop.paren_first_branch": "KF-14f", "update.set_subquery": "KF-14f",
            "update.where_subquery": "KF-14f", "select.scalar_subquery": "KF-14f", "join.parenthesised_group": "KF-14f"}


def build(tier, rnd):
    out = []
    n = 110 if tier == "quick" else 2500
    g = sqlgen.Gen(random.Random(common.env.seed() * 15485863 + 11), alias_p=0.5)
    kinds = ["insert", "insert", "ctas", "create_view", "bare", "insert_cols", "update_from", "merge", "with_insert", "delete", "truncate", "create_like", "insert_values"]
    for i in range(n):
        out.append((("random", i), g.statement(rnd.choice([1, 1, 2, 2, 3]), kinds=kinds)))
    # a FROM item that is a join wholly enclosed in parentheses (some grammars give it a parse-tree shape of its own), alone or followed by a join
    from vlib.sqlgen import Base, Group, Item, Nested, Select, Stmt, col
    for i in range(6 if tier == "quick" else 60):
        a, b, c = Base(f"tb_pa{i}", rnd.choice([None, "sa"]), f"a{i}"), Base(f"tb_pb{i}", None, f"b{i}" if i % 2 else None), Base(f"tb_pc{i}", None, f"c{i}")
        grp = Nested(Group(a, [(rnd.choice(["inner", "left"]), b, "on")]))
        q = Select([Item(col("c_1", a.key())), Item(col("c_2", b.key()), "o_2")], [Group(grp, [("inner", c, "on")] if i % 3 == 2 else [])])
        out.append((("paren_from_item", i), Stmt(rnd.choice(["insert", "ctas", "bare"]) if i % 2 else "insert", Base(f"tb_pt{i}"), q)))
    d1 = sqlgen.enumerate_depth1(2)
    rnd.shuffle(d1)
    out += d1[: (60 if tier == "quick" else 1200)]
    return out


def table_view(r):
    return (tuple(sorted(r["source"])), tuple(sorted(r["target"])), tuple(sorted(r["intermediate"])))


def run(tier):
    run_ = evidence.Run(PID, tier, rule=RULE)
    rnd = common.rng("c09")
    asts = build(tier, rnd)
    analyzers = c01.dialects() + ["non-validating"]
    cases, meta = [], []
    for key, st in asts:
        sql = sqlgen.render(st)
        exp = sqlgen.expected(st)
        for d in analyzers:
            if st.kind == "select_into" and d not in c01.SELECT_INTO_DIALECTS:
                continue
            if not common.is_core_for(d, exp["tags"]):
                continue
            cases.append({"sql": sql, "dialect": d, "want": []})
            meta.append((key, st, exp, None))
        # every fifth statement also under a configured default schema: the analyzers must still agree (and complete names alike)
        if len(meta) % 5 == 0 and st.kind != "copy":
            exp2 = sqlgen.expected(st, "zs_d")
            k0 = len(cases)
            for d in [analyzers[(k0 + 7 * j) % (len(analyzers) - 1)] for j in range(5)] + ["ansi", "non-validating"]:
                if (st.kind == "select_into" and d not in c01.SELECT_INTO_DIALECTS) or not common.is_core_for(d, exp["tags"]):
                    continue
                cases.append({"sql": sql, "dialect": d, "want": [], "config": {"DEFAULT_SCHEMA": "zs_d"}})
                meta.append((key, st, exp2, "zs_d"))
    for k in ("statements_compared", "dialect_pairs_compared", "sqlparse_comparisons"):
        run_.need(k)
    with Pool() as pool:
        recs = pool.map("vlib.observe:run_case", cases, timeout=180)
    common.check_taps(run_, recs)
    by_sql = collections.OrderedDict()
    for case, (key, st, exp, dsch), (s, r) in zip(cases, meta, recs):
        if not run_.pool_status(s, r, {"sql": case["sql"], "dialect": case["dialect"]}):
            continue
        by_sql.setdefault((case["sql"], dsch), {"st": st, "exp": exp, "recs": {}})["recs"][case["dialect"]] = r
    accepted_hist = collections.Counter()
    for (sql, dsch), e in by_sql.items():
        st, exp = e["st"], e["exp"]
        ok = {d: r for d, r in e["recs"].items() if r["outcome"] == "ok"}
        for d, r in e["recs"].items():
            if r["outcome"] != "ok" and r["outcome"]["exc_type"] not in ("InvalidSyntaxException", "UnsupportedStatementException"):
                run_.judge({"sql": sql, "dialect": d}, "analysis_raised:" + r["outcome"]["exc_type"], r["outcome"], kf_id=None)
        fluff = {d: r for d, r in ok.items() if d != "non-validating"}
        accepted_hist[len(fluff)] += 1
        run_.case(evidence.sha((sql, dsch)), nontrivial=len(ok) >= 2,
                  sample={"sql": sql, "accepted_by": sorted(ok)} if len(run_.samples) < 4 and len(ok) > 20 else None)
        if len(fluff) < 1:
            continue
        run_.observe("statements_compared")
        truth_t = (tuple(sorted(exp["read"])), tuple(sorted(exp["write"])), ())
        tviews = {d: table_view(r) for d, r in fluff.items()}
        groups = collections.Counter(tviews.values())
        run_.observe("dialect_pairs_compared", len(fluff) * (len(fluff) - 1) // 2)
        # reference = the AST's meaning when some dialect reports it, else the most common answer
        ref = truth_t if truth_t in groups else groups.most_common(1)[0][0]
        if len(groups) > 1:
            for d, v in sorted(tviews.items()):
                if v == ref:
                    continue
                r = fluff[d]
                f = r["per_statement"][0]["facts"] if r["per_statement"] and "facts" in r["per_statement"][0] else {"read": list(v[0]), "write": list(v[1])}
                ids = c01.classify(st, d, exp, f["read"], f["write"], dsch)
                kfid = ids[0] if ids and all(i in KF_IDS for i in ids) else None
                run_.judge({"sql": sql, "dialect": d, "default_schema": dsch, "tags": exp["tags"]}, "dialect_disagrees_on_tables",
                           {"dialect": d, "reports": {"source": v[0], "target": v[1]}, "others": {"source": ref[0], "target": ref[1]},
                            "agreeing_dialects": sorted(x for x, y in tviews.items() if y == ref)[:6]}, kf_id=kfid)
        # column pairs across dialects
        if not exp["notes"]:
            pviews = {d: tuple(sorted(map(tuple, r["column_pairs"]))) for d, r in fluff.items()}
            pg = collections.Counter(pviews.values())
            truth_p = tuple(sorted(map(tuple, exp["column_pairs"])))
            pref = truth_p if truth_p in pg else pg.most_common(1)[0][0]
            if len(pg) > 1:
                for d, v in sorted(pviews.items()):
                    if v == pref or tviews[d] != ref:
                        continue  # a table-level deviation was already judged above
                    miss = sorted(set(pref) - set(v))
                    extra = sorted(set(v) - set(pref))
                    kfid = "KF-14e" if f"{d}:{st.kind}" in c02.DIALECT_BLIND_SPOTS else None
                    if kfid is None:
                        # this dialect's deviation from the AST's dataflow is a listed mechanism (the others happen to be right, or wrong differently)
                        m2 = sorted(set(truth_p) - set(v))
                        u2 = sorted(set(v) - set(truth_p))
                        k2 = c02.classify(exp["tags"], d, m2, u2, exp)
                        kfid = k2 if k2 in KF_IDS else None
                    run_.judge({"sql": sql, "dialect": d, "default_schema": dsch, "tags": exp["tags"]}, "dialect_disagrees_on_columns",
                               {"dialect": d, "missing_vs_others": miss[:8], "extra_vs_others": extra[:8], "agreeing_dialects": sorted(x for x, y in pviews.items() if y == pref)[:6]}, kf_id=kfid)
        # the legacy analyzer: same table lineage
        if "non-validating" in ok:
            run_.observe("sqlparse_comparisons")
            v = table_view(ok["non-validating"])
            if v != ref:
                truth_tabs = set(exp["read"]) | set(exp["write"])
                sp_tabs = set(v[0]) | set(v[1])
                lost = truth_tabs - sp_tabs
                extra = sp_tabs - truth_tabs
                kfid = None
                risk = sqlgen.risk(st, dsch)
                # (1) the legacy analyzer's own deviation from the AST's meaning must be a listed blind spot of it
                sp_ok = not extra and set(v[1]) == set(exp["write"])
                if sp_ok and lost:
                    rem = set(lost)
                    for tag in SQLPARSE:
                        rem -= set(risk.get(tag, []))
                    sp_ok = not rem
                # (2) the sqlfluff side's deviation from the AST's meaning (if any) must be a listed finding too
                fl_ok = True
                if ref != truth_t:
                    ids = c01.classify(st, "ansi", exp, list(ref[0]), list(ref[1]), dsch)
                    fl_ok = bool(ids) and all(i in KF_IDS for i in ids)
                if sp_ok and fl_ok:
                    kfid = "KF-14f" if lost else (c01.classify(st, "ansi", exp, list(ref[0]), list(ref[1]), dsch) or [None])[0]
                run_.judge({"sql": sql, "dialect": "non-validating", "default_schema": dsch, "tags": exp["tags"]}, "parsers_disagree_on_tables",
                           {"non_validating": {"source": v[0], "target": v[1]}, "sqlfluff_dialects": {"source": ref[0], "target": ref[1]},
                            "ast_meaning": {"read": exp["read"], "write": exp["write"]}}, kf_id=kfid)
    catalog_pass(run_, analyzers, tier)
    run_.extra.update({"accepting_sqlfluff_dialects_histogram": dict(sorted(accepted_hist.items())), "analyzers": analyzers})
    run_.assumptions = ["identifiers are keywords in no dialect, so acceptance depends on syntax only", "InvalidSyntax/UnsupportedStatement = not accepted by that analyzer"]
    return run_.finish()


def catalog_pass(run_, analyzers, tier):
    """core statements analysed with a catalog (non-empty metadata provider) under every dialect: metadata-dependent paths (star expansion, unqualified
    attribution, a later select item spelled like an earlier item's alias, positional naming) must not depend on the dialect either"""
    forms = []
    for i in range(3 if tier == "quick" else 12):
        md = {f"<default>.src_c{i}": ["a", "b", "c", "k"], f"<default>.oth_c{i}": ["k", "v", "w"], f"sa.tgt_k{i}": ["t1", "t2"]}
        forms += [
            (f"insert into tgt_c{i} select a as x, x + b as y from src_c{i}", md),
            (f"create table tgt_c{i} as select s.a as v, v + s.b as total, total * 2 as dbl from src_c{i} s", md),
            (f"insert into tgt_c{i} select * from src_c{i} s inner join oth_c{i} o on s.k = o.k", md),
            (f"create table tgt_c{i} as select a, v, w from src_c{i} inner join oth_c{i} on src_c{i}.k = oth_c{i}.k", md),
            (f"insert into sa.tgt_k{i} select a, b from (select * from src_c{i}) d", md),
            (f"insert into tgt_c{i} select d.* from (select a, b as x from src_c{i}) d; insert into fin_c{i} select * from tgt_c{i}", md),
        ]
    cases = [{"sql": sql, "dialect": d, "want": [], "metadata": md, "provider": "dummy"} for sql, md in forms for d in analyzers if d != "non-validating"]
    run_.need("catalog_statements_compared")
    with Pool() as pool:
        recs = pool.map("vlib.observe:run_case", cases, timeout=180)
    by = collections.OrderedDict()
    for c, (s_, r) in zip(cases, recs):
        if run_.pool_status(s_, r, {"sql": c["sql"], "dialect": c["dialect"]}) and r["outcome"] == "ok":
            by.setdefault(c["sql"], {})[c["dialect"]] = (table_view(r), tuple(sorted(map(tuple, r["column_pairs"]))))
    for sql, views in by.items():
        run_.case(evidence.sha((sql, "catalog")), nontrivial=len(views) >= 2)
        if len(views) < 2:
            continue
        run_.observe("catalog_statements_compared")
        run_.observe("dialect_pairs_compared", len(views) * (len(views) - 1) // 2)
        ref = collections.Counter(views.values()).most_common(1)[0][0]
        for d, v in sorted(views.items()):
            if v != ref:
                run_.judge({"sql": sql, "dialect": d, "with_catalog": True}, "dialect_disagrees_with_catalog",
                           {"dialect": d, "pairs_minus_others": sorted(set(v[1]) - set(ref[1]))[:8], "others_minus_pairs": sorted(set(ref[1]) - set(v[1]))[:8],
                            "tables": v[0], "others_tables": ref[0], "agreeing_dialects": sorted(x for x, y in views.items() if y == ref)[:6]}, kf_id=None)


KF_IDS = {f["id"] for f in evidence.load_kf().get("findings", []) if PID in f.get("properties", [])}


def replay(path):
    rep = common.load_replay(path)
    c = rep["case"]
    out = {}
    with Pool(2) as pool:
        for i, d in enumerate([c["dialect"], "ansi"]):
            st, r = pool.call(i, "vlib.observe:run_case", {"sql": c["sql"], "dialect": d, "want": []}, timeout=180)
            out[d] = table_view(r) if st == "ok" and r["outcome"] == "ok" else None
    print(out)
    bad = out.get(c["dialect"]) is not None and out.get("ansi") is not None and out[c["dialect"]] != out["ansi"]
    if bad:
        print(f"VIOLATION property={PID} replay={path}")
    return 1 if bad else 0
