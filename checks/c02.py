"""C02 - single-statement column lineage is exact (reference-model monitor for column dataflow)."""
import random

from vlib import evidence, sqlgen
from vlib.pool import Pool
from . import common, c01

PID = "C02"
RULE = ("statement = generated AST (INSERT/INSERT with column list/CTAS/CREATE VIEW/UPDATE FROM/MERGE over expression trees to depth 3 of every select-item kind, 1-3 relations in scope, "
        "derived tables, CTEs, set operations, scalar sub-queries); the end-to-end (source column -> target column) pairs reported by get_column_lineage must equal the AST's dataflow "
        "(owner or sorted candidate owners + name); non-trivial = accepted by the dialect with at least one expected pair; distinct by (SQL text, dialect)")

def _blind_spots():
    for f in evidence.load_kf().get("findings", []):
        if f["id"] == "KF-14e":
            return set(f.get("pairs", []))
    return set()


DIALECT_BLIND_SPOTS = _blind_spots()
KINDS = ["insert", "insert", "insert_cols", "ctas", "create_view", "update_from", "merge", "with_insert", "insert"]


def is_table_owned(desc):
    """'<default>.t.c' / 'sa.t.c' -> True ; 'dq1.c' -> False ; '<a|b>.c' -> None (unresolved)"""
    if desc.startswith("<") and "|" in desc.split(">")[0]:
        return None
    if desc.startswith("<default>."):
        return True
    return desc.count(".") >= 2


def build(tier, rnd):
    out = []
    alld = c01.dialects()
    n = 1500 if tier == "quick" else 20000
    g = sqlgen.Gen(random.Random(common.env.seed() * 104729 + 5), alias_p=0.6, scalar_p=0.12)
    for i in range(n):
        st = g.statement(rnd.choice([1, 1, 2, 2, 3]), kinds=KINDS)
        ds = ["ansi"] if i % 3 else ["ansi", alld[(i // 3 + common.env.seed()) % len(alld)]]
        if tier == "thorough" and i % 5 == 0:
            ds = ["ansi"] + [alld[(i + k * 11) % len(alld)] for k in range(3)]
        out.append((("random", i), st, ds))
    d1 = [(k, s) for k, s in sqlgen.enumerate_depth1(1) if k[0] in ("insert", "ctas", "create_view", "insert_cols") and "mixed" not in k[1]]
    for k, s in (d1 if tier == "thorough" else d1[::3]):
        out.append((k, s, ["ansi"]))
    out += same_alias_cases(45 if tier == "quick" else 600, common.env.seed() * 31 + 7)
    out += capture_cases(24 if tier == "quick" else 300, common.env.seed() * 53 + 3)
    out += merge_self_cases(6 if tier == "quick" else 40, common.env.seed() * 67 + 13)
    out += dialect_form_cases(40 if tier == "quick" else 400, common.env.seed() * 59 + 11)
    # CTEs that reference themselves, with and without the RECURSIVE keyword
    for key, st, ds in c01.recursive_cte_cases(10 if tier == "quick" else 80, common.env.seed() * 41 + 9):
        if key[1] % 2 and st.kind in KINDS:
            st.query.recursive = True
            ds = ["ansi", "postgres", "mysql", "sqlite"][: 2 + key[1] % 3]
        if st.kind in KINDS:
            out.append((key, st, ds))
    return out


# expression forms of single dialects inside / around function calls (struct fields, subscripts, named arguments, AT TIME ZONE, INTERVAL,
# ORDER BY inside an aggregate, :: casts, IF / IIF): the item depends on exactly the columns of its operands, however they are bracketed
DIALECT_FORMS = {
    "bigquery": ["to_json_string(struct({0} as x, {1} as y))", "ifnull({0}[safe_offset({1})], {2})", "date_add({0}, interval ({1}) day)"],
    "hive": ["coalesce({0}[lower({1})], {2})"],
    "sparksql": ["coalesce({0}[lower({1})], {2})", "concat({0}[({1})], {2})"],
    "postgres": ["make_interval(days => ({0} - {1}))", "coalesce({0}[({1})], {2})", "string_agg({0}, ',' order by abs({1}))", "upper({0} :: text || ({1}))"],
    "snowflake": ["coalesce({0}[({1})], {2})", "iff(({0} > 1), {1}, ({2}))"],
    "trino": ["coalesce({0}[({1})], {2})"],
    "ansi": ["date_trunc('day', {0} at time zone ({1}))", "coalesce({0}, abs(({1})), {2})"],
    "tsql": ["isnull(({0} + {1}), {2})", "iif({0} > ({1}), {2}, 0)"],
    "mysql": ["if({0} > ({1}), {2}, 0)", "concat_ws(',', {0}, ({1}))"],
}


def merge_self_cases(n, seed):
    """MERGE whose UPDATE SET reads the matched target row (a = <target alias>.b): the assignment depends on the target's own column (KF-44)"""
    from vlib.sqlgen import Base, Stmt, col
    rnd = random.Random(seed)
    out = []
    for i in range(n):
        tal = f"t{i}" if i % 3 else None
        tgt = Base(f"tb_mt{i}", rnd.choice([None, "sa"]), tal)
        out.append((("merge_self", i), Stmt("merge", tgt, None, None, {"source": Base(f"tb_ms{i}", None, f"s{i}"), "update": [("c_1", "c_1")], "self": [("c_9", col("c_2", tgt.key()))],
                                                                       "self_model": True, "insert": [("k_1", "k_1")] if i % 2 else []}), ["ansi", rnd.choice(["snowflake", "postgres", "bigquery"])]))
    return out


def dialect_form_cases(n, seed):
    from vlib.sqlgen import Base, E, Group, Item, Select, Stmt, col
    rnd = random.Random(seed)
    forms = [(d, t) for d, ts in sorted(DIALECT_FORMS.items()) for t in ts]
    out = []
    for i in range(n):
        d, t = forms[i % len(forms)]
        A, B = Base(f"tb_fa{i}", rnd.choice([None, "sa"]), f"a{i}"), Base(f"tb_fb{i}", None, f"b{i}")
        ops = [col(f"c_{j + 1}", rnd.choice([A, B]).key()) for j in range(3)]
        if i // len(forms) % 2:
            j = rnd.randrange(3)
            ops[j] = E("func", ops[j], fname=rnd.choice(["abs", "upper"]))  # one operand is itself a call
        ops = ops[: len({x for x in ("{0}", "{1}", "{2}") if x in t})]
        q = Select([Item(E("tmpl", *ops, fname=t), "o_1"), Item(col("c_4", A.key()), "o_2")], [Group(A, [("inner", B, "on")])])
        out.append((("dialect_form", i), Stmt(rnd.choice(["insert", "ctas"]), Base(f"tb_ft{i}"), q), [d]))
    return out


def capture_cases(n, seed):
    """a select-item scalar sub-query reads a table whose bare name is, in the enclosing query, the alias of ANOTHER relation (names must not be
    captured across scopes); in half of the cases the sub-query is also correlated through a second outer alias"""
    from vlib.sqlgen import Base, Derived, E, Group, Item, Select, Stmt, col
    rnd = random.Random(seed)
    out = []
    for i in range(n):
        inner, outer, other, T = f"tb_ci{i}", f"tb_co{i}", f"tb_cx{i}", Base(f"tb_ct{i}", rnd.choice([None, "sa"]))
        c1, c2, c3 = f"c_{rnd.randint(1, 3)}", f"c_{rnd.randint(4, 6)}", f"c_{rnd.randint(7, 9)}"
        sch = rnd.choice([None, "sb"])
        ie = E("func", col(c1, inner), fname="max")
        k = i % 4
        if k in (1, 3):
            oc = col(c3, "oq")
            oc.outer = True
            ie = E("arith", ie, oc, fname="-")
        isel = Select([Item(ie, "o_i")], [Group(Base(inner, sch))])
        sc = E("scalar", query=isel)
        if k >= 2:
            sc = E(rnd.choice(["coalesce", "func"]), sc, col(c2, inner), fname="concat")  # operand of a call, beside a column of the outer relation that carries the name
        # the outer relation carrying the inner table's bare name as its alias: a table or a derived table
        orel = Base(outer, None, alias=inner, use_as=bool(i % 2)) if i % 3 else Derived(Select([Item(col(c2)), Item(col(c3))], [Group(Base(outer))]), inner)
        rels = [orel, ("inner", Base(other, None, alias="oq"), "on")] if k in (1, 3) else [orel]
        q = Select([Item(sc, "m"), Item(col(c2, inner), "n")], [Group(rels[0], rels[1:])])
        out.append((("capture", i), Stmt("insert", T, q), ["ansi", rnd.choice(["postgres", "sparksql", "mysql", "snowflake", "non-validating"])]))
    return out


def same_alias_cases(n, seed):
    """the same alias carried by two different derived tables / CTE references in different scopes, exposing same-named columns"""
    from vlib.sqlgen import Base, Derived, E, Group, Item, Select, SetOp, Stmt, col
    rnd = random.Random(seed)
    out = []
    for i in range(n):
        A, B, T = f"tb_sa{i}", f"tb_sb{i}", Base(f"tb_st{i}", rnd.choice([None, "sa"]))
        c1, c2 = f"c_{rnd.randint(1, 5)}", f"c_{rnd.randint(6, 9)}"
        al = rnd.choice(["s", "x1", "dq", "src"])
        k = i % 4
        if k == 3:
            # one CTE referenced under different aliases in two set-operation branches; the alias of branch 1 names the other CTE in branch 2
            from vlib.sqlgen import CteRef, With
            w1, w2 = f"wq_a{i}", f"wq_b{i}"
            q1 = Select([Item(col(c1), "a"), Item(col(c2), "b")], [Group(Base(A))])
            q2 = Select([Item(col("a", w1), "c")], [Group(CteRef(w1))])
            b1 = Select([Item(col("c", al), "o")], [Group(CteRef(w2, al))])
            b2 = Select([Item(col("b", al), "o")], [Group(CteRef(w2, "k9"), [("left", CteRef(w1, al), "on")])])
            q = With([(w1, q1), (w2, q2)], SetOp(rnd.choice(["union all", "union"]), [b1, b2]))
        elif k == 0:
            def side(tab, outer):
                inner = Select([Item(col(c1)), Item(col(c2))], [Group(Base(tab))])
                mid = Select([Item(col(c1, al)), Item(col(c2, al))], [Group(Derived(inner, al))])
                return Derived(mid, outer)
            cur, prev = side(A, "cur"), side(B, "prev")
            q = Select([Item(col(c1, "cur")), Item(E("arith", col(c2, "cur"), col(c2, "prev"), fname="-"), "delta")], [Group(cur, [("inner", prev, "on")])])
        elif k == 1:
            b1 = Select([Item(col("a", al)), Item(col("b", al))], [Group(Derived(Select([Item(col(c1), "a"), Item(col(c2), "b")], [Group(Base(A))]), al))])
            b2 = Select([Item(col("b", al), "a"), Item(col("a", al), "b")], [Group(Derived(Select([Item(col(c1), "a"), Item(col(c2), "b")], [Group(Base(B))]), al))])
            q = SetOp(rnd.choice(["union all", "union"]), [b1, b2])
        else:
            outer = Derived(Select([Item(col("k_1")), Item(col(c1), "v")], [Group(Base(A))]), al)
            inner = Derived(Select([Item(col("k_1")), Item(col(c2), "v")], [Group(Base(B))]), al)
            bq = Derived(Select([Item(col("k_1", al)), Item(col("v", al))], [Group(inner)]), "bq")
            q = Select([Item(col("v", al), "v1"), Item(col("v", "bq"), "v2")], [Group(outer, [("inner", bq, "on")])])
        out.append((("same_alias", i), Stmt("insert", T, q), ["ansi", rnd.choice(["postgres", "sparksql", "mysql", "snowflake", "non-validating"])]))
    return out


def _kf39_split(sql, dialect, missing, unexpected):
    """pairs explained by KF-39 (a select-item scalar sub-query is analysed by a nested legacy run) are taken out; returns (rest_missing, rest_unexpected, n_explained)"""
    from vlib import sqlfeat
    feat = sqlfeat.features(sql, dialect)
    sch, win = feat["select_subquery_fullname_schemas"], feat["select_subquery_window_expr_tables"]
    rest_u, phantom = [], set()
    import re as _re
    # (d) CASE ... END * n inside the sub-query: the legacy lexer reads the '*' that follows END as a wildcard, the item gains <table>.* sources
    end_star = bool(_re.search(r"(?i)(\bend\s*\*|\*\s*case\b)", sql))
    for p in unexpected:
        parts = p[0].split(".")
        if end_star and parts[-1] == "*" and len(parts) >= 2:
            phantom.add(("*", p[0], p[1]))
            continue
        # (a) schema.table.column inside the sub-query: the column lands on <default>.<schema>
        if len(parts) == 3 and parts[0] == "<default>" and parts[1] in sch:
            phantom.add((parts[1], parts[2], p[1]))
        else:
            rest_u.append(p)
    rest_m = []
    for p in missing:
        parts = p[0].split(".")
        if len(parts) == 3 and (parts[0], parts[2], p[1]) in phantom:
            continue  # the real owner of a column that went to the phantom table
        # (b) a window function over an expression inside the sub-query contributes only its PARTITION BY / ORDER BY columns
        if len(parts) == 3 and parts[1] in win:
            continue
        rest_m.append(p)
    return rest_m, rest_u, (len(missing) - len(rest_m)) + (len(unexpected) - len(rest_u))


def _direct_end_star(sql, dialect, missing, unexpected):
    """the same lexer defect met directly under the legacy analyzer: only extra <table>.* sources, nothing missing"""
    import re as _re
    return dialect == "non-validating" and not missing and unexpected and _re.search(r"(?i)(\bend\s*\*|\*\s*case\b)", sql) and all(p[0].endswith(".*") for p in unexpected)


def classify(tags, dialect, missing, unexpected, exp, sql=None):
    """narrow shapes of listed findings; anything else is a violation"""
    t = set(tags)
    if sql is not None and "select.scalar_subquery" in t:
        m2, u2, n = _kf39_split(sql, dialect, missing, unexpected)
        if n:
            if not m2 and not u2:
                return "KF-39"
            # the rest must be a listed finding of its own
            other = classify(tags, dialect, m2, u2, exp)
            return ("KF-39+" + other) if other else None
    # KF-44: a MERGE assignment that reads the target row is attributed to the USING source: exactly the self-assigned columns move from the target to the source
    if "merge.self_assignment" in t and missing and len(missing) == len(unexpected) and all(m[1] == u[1] and m[0].rsplit(".", 1)[1] == u[0].rsplit(".", 1)[1] for m, u in zip(sorted(missing, key=lambda p: p[1]), sorted(unexpected, key=lambda p: p[1]))) \
            and {m[0].rsplit(".", 1)[0] for m in missing} <= set(exp.get("write") or []):
        return "KF-44"
    if sql is not None and _direct_end_star(sql, dialect, missing, unexpected):
        return "KF-39"
    # KF-16e: the legacy analyzer takes the first part of schema.table.column as the qualifier
    if dialect == "non-validating" and "col.qualified_by_full_name" in t:
        return "KF-16e"
    # KF-05: a set operation whose first branch has a source-less (literal) item mis-attributes later branches
    # (what is mis-attributed are columns of the later branches of such a set operation: every differing pair starts at one of their tables,
    #  or at a sub-query / candidate set)
    if "setop.first_branch_literal" in t:
        scope = set(exp.get("kf05_tables") or [])
        if all(p[0].rsplit(".", 1)[0] in scope or is_table_owned(p[0]) is not True for p in list(missing) + list(unexpected)):
            return "KF-05"
    # KF-06: two relations with the same bare name in scope: a qualifier resolves to the wrong one
    if "from.same_bare_name_twice" in t:
        return "KF-06"
    return None


def run(tier):
    run_ = evidence.Run(PID, tier, rule=RULE)
    rnd = common.rng("c02")
    items = build(tier, rnd)
    cases, meta = [], []
    for key, st, ds in items:
        sql = sqlgen.render(st)
        exp = sqlgen.expected(st)
        for d in ds:
            if not common.is_core_for(d, exp["tags"]):
                continue
            cases.append({"sql": sql, "dialect": d, "want": []})
            meta.append((key, st, exp))
            # statements that name their target columns themselves (MERGE lists, INSERT column list), once more with a catalog that knows the
            # target under ANOTHER column order plus a column the statement does not mention: the explicit names still decide
            if st.kind in ("merge", "insert_cols") and d == ds[0] and exp["write"] and not exp["notes"]:
                named = [a for a, _ in (st.extra.get("insert") or []) + (st.extra.get("update") or [])] if st.kind == "merge" else list(st.cols or [])
                if named:
                    cat = {exp["write"][0]: sorted(set(named), reverse=True) + ["zz_extra"]}
                    cases.append({"sql": sql, "dialect": d, "want": [], "metadata": cat, "provider": "dummy"})
                    meta.append((key, st, dict(exp, tags=list(exp["tags"]) + ["catalog.target_known_in_another_order"])))
    run_.need("pair_sets_compared")
    run_.need("pairs_matched")
    with Pool() as pool:
        recs = pool.map("vlib.observe:run_case", cases, timeout=180)
    common.check_taps(run_, recs)
    tagcov = {}
    rejected = {}
    skipped_notes = {}
    ansi_ok = set()
    for case, (key, st, exp), (s, r) in zip(cases, meta, recs):
        b = {"sql": case["sql"], "dialect": case["dialect"], "tags": exp["tags"], **({"metadata": case["metadata"]} if case.get("metadata") else {})}
        if not run_.pool_status(s, r, b):
            run_.case()
            continue
        d = case["dialect"]
        if r["outcome"] != "ok":
            et = r["outcome"]["exc_type"]
            if et in ("InvalidSyntaxException", "UnsupportedStatementException"):
                rejected[d] = rejected.get(d, 0) + 1
                run_.case()
                continue
            run_.case(evidence.sha((case["sql"], d)), nontrivial=True)
            run_.judge(b, "analysis_raised:" + et, r["outcome"], kf_id=None)
            continue
        if exp["notes"]:
            for n in exp["notes"]:
                skipped_notes[n] = skipped_notes.get(n, 0) + 1
            run_.case()
            continue  # outside what the reference model decides
        E = {tuple(p) for p in exp["column_pairs"]}
        O = {tuple(p) for p in r["column_pairs"]}
        run_.case(evidence.sha((case["sql"], d, case.get("metadata"))), nontrivial=bool(E),
                  sample={"sql": case["sql"], "dialect": d, "expected_pairs": sorted(E)[:6]} if len(run_.samples) < 5 and len(E) > 3 else None)
        run_.observe("pair_sets_compared")
        for t in exp["tags"]:
            tagcov[t] = tagcov.get(t, 0) + 1
        Eb = {p for p in E if is_table_owned(p[0]) is not False}
        Es = E - Eb
        Ob = {p for p in O if is_table_owned(p[0]) is not False}
        Os = O - Ob
        missing = sorted(Eb - Ob)
        # a star over a derived table whose columns are all literal-defined is not expandable from the graph: the tool keeps
        # 'alias.* -> target.*', a sub-query rooted pair the property neither requires nor forbids
        extra_sub = {p for p in Os - Es if not (p[0].endswith(".*") and any(e[0].split(".")[0] == p[0].split(".")[0] for e in Es))}
        unexpected = sorted(Ob - Eb) + sorted(extra_sub)
        run_.observe("pairs_matched", len(Eb & Ob))
        if not missing and not unexpected:
            if d == "ansi":
                ansi_ok.add(case["sql"])
            continue
        det = {"missing": missing[:12], "unexpected": unexpected[:12], "expected": sorted(E)[:40], "observed": sorted(O)[:40]}
        kfid = classify(exp["tags"], d, missing, unexpected, exp, sql=case["sql"])
        if kfid and kfid.startswith("KF-39+"):
            kfid = kfid[6:] if run_.kf_listed("KF-39") else None
        if d == "ansi" and kfid is not None and run_.kf_listed(kfid):
            ansi_ok.add(case["sql"])  # ansi deviates only by a listed finding: still the referee for per-dialect blind spots
        if d != "ansi" and case["sql"] in ansi_ok and f"{d}:{st.kind}" in DIALECT_BLIND_SPOTS:
            # the same text is analysed exactly under ansi: a per-dialect extractor blind spot (listed pair of dialect and statement kind)
            kfid = "KF-14e"
        run_.judge(b, "column_pairs_differ", det, kf_id=kfid)
    run_.extra.update({"feature_tag_coverage": dict(sorted(tagcov.items())), "not_accepted_by_dialect": rejected, "outside_model_skipped": skipped_notes})
    run_.assumptions = ["the generator's dataflow semantics is the reference; shapes the property leaves undecided are not generated or are skipped (listed in outside_model_skipped)",
                        "sub-query rooted pairs are accepted only where the model says that sub-query column has no base source"]
    return run_.finish()


def replay(path):
    rep = common.load_replay(path)
    c = rep["case"]
    with Pool(1) as pool:
        st, r = pool.call(0, "vlib.observe:run_case", {"sql": c["sql"], "dialect": c["dialect"], "want": []}, timeout=180)
    print(st, r.get("column_pairs"))
    exp = {tuple(p) for p in rep["detail"].get("expected", [])}
    obs = {tuple(p) for p in (r.get("column_pairs") or [])}
    bad = st == "ok" and bool(set(map(tuple, rep["detail"].get("missing", []))) - obs)
    if bad:
        print(f"VIOLATION property={PID} replay={path}")
    return 1 if bad else 0
