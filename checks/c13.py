"""C13 - metadata only refines column attribution (differential + reference-model monitor)."""
import itertools
import os
import random
import shutil
import tempfile

from vlib import evidence, sqlgen
from vlib.pool import Pool
from . import common

PID = "C13"
RULE = ("case = statement template (star / qualified star / unqualified column in a two-table scope / INSERT with and without column list / derived and CTE star) over db.a, db.b, db.t x "
        "every assignment of {known with columns | unknown} to the three tables x column-overlap pattern {none, partial} x provider {dict-backed, SQLAlchemy on scratch sqlite}; plus generated "
        "statements with random metadata assignments; table lineage with metadata must equal table lineage without; expansions/attributions/position naming must equal the reference; "
        "non-trivial = analysis returned under a truthy provider")

A_NONE, B_NONE = ["ax", "ay", "k"], ["bx", "bz", "j"]
A_PART, B_PART = ["ax", "sh", "k"], ["bx", "sh", "k"]
T_COLS = ["tp", "tq", "tr"]
OTHER = {"zz.other": ["q"]}  # keeps the provider truthy when a, b, t are all unknown


def templates(A, B, ka, kb, kt):
    """yield (name, sql, expected_pairs or None, kf_hint); expected pairs use the tool's printed identities.
    ka/kb/kt: is the table known to the provider"""
    T = "db.t"
    out = []

    def star_a():
        return [[f"db.a.{c}", c] for c in A] if ka else [["db.a.*", "*"]]

    def star_b():
        return [[f"db.b.{c}", c] for c in B] if kb else [["db.b.*", "*"]]

    def to_t(pairs, positional=True):
        """name target columns: by the target's known columns (position by position) when it is known and the list lengths agree"""
        names = [n for _, n in pairs]
        if kt and positional and "*" not in names and len(names) == len(T_COLS):
            return [[s, f"{T}.{T_COLS[i]}"] for i, (s, _) in enumerate(pairs)]
        return [[s, f"{T}.{n}"] for s, n in pairs]

    # 1 star over one table
    out.append(("star_single", f"insert into {T} select * from db.a", to_t(star_a()), "KF-27" if ka and kt else None))
    # 2 star over a join
    pj = star_a() + star_b()
    shared = [c for c in A if c in B]
    if ka and kb and shared:
        exp = None  # which table a shared name is attributed to is not decided by the property (and KF-17: set order) -> table level only
    elif ka != kb:
        exp = [[s, f"{T}.{n}"] for s, n in pj]
    else:
        exp = [[s, f"{T}.{n}"] for s, n in pj]
    out.append(("star_join", f"insert into {T} select * from db.a join db.b on a.k = b.k", exp if not kt else None, "KF-26" if ka != kb else None))
    # 3 qualified star
    out.append(("star_qualified", f"insert into {T} select x.* from db.a x join db.b y on x.k = y.k", [[s, f"{T}.{n}"] for s, n in star_a()] if not kt else None, None))
    # 4 unqualified column in a two-table scope
    for cname in ("ax", "sh", "bx", "nowhere"):
        owners = []
        if ka and cname in A:
            owners.append("db.a")
        if kb and cname in B:
            owners.append("db.b")
        if owners:
            exp = [[f"{o}.{cname}", f"{T}.{cname}"] for o in owners]
        else:
            exp = "unresolved"
        forbidden = [t for t, k, cols in (("db.a", ka, A), ("db.b", kb, B)) if k and cname not in cols]
        out.append((f"unqualified_{cname}", f"insert into {T} (tp) select {cname} from db.a join db.b on a.k = b.k", ("attr", cname, owners, forbidden), None))
    # 4b the same unqualified column feeds several output columns
    for cname in ("ax", "bx"):
        owners = [t for t, k, cols in (("db.a", ka, A), ("db.b", kb, B)) if k and cname in cols]
        forbidden = [t for t, k, cols in (("db.a", ka, A), ("db.b", kb, B)) if k and cname not in cols]
        out.append((f"unqualified_twice_{cname}", f"insert into {T} (m1, m2, m3) select {cname} as k1, {cname} as k2, {cname} as k3 from db.a join db.b on a.k = b.k",
                    ("attr", cname, owners, forbidden), "KF-07" if kt else None))
    # 5 insert without column list into a (possibly) known target
    out.append(("insert_positional", f"insert into {T} select a.ax, a.k, a.{A[1]} from db.a a", to_t([["db.a.ax", "ax"], ["db.a.k", "k"], [f"db.a.{A[1]}", A[1]]]), None))
    # 5b the same with the query in parentheses (alone, as a set operation, with a CTE in front)
    pos = to_t([["db.a.ax", "ax"], ["db.a.k", "k"], [f"db.a.{A[1]}", A[1]]])
    out.append(("insert_positional_paren", f"insert into {T} (select a.ax, a.k, a.{A[1]} from db.a a)", pos, None))
    out.append(("insert_positional_paren_union", f"insert into {T} (select a.ax, a.k, a.{A[1]} from db.a a union all select a.ax, a.k, a.{A[1]} from db.a a)", pos, None))
    out.append(("insert_positional_paren_cte", f"insert into {T} (with c as (select a.ax, a.k, a.{A[1]} from db.a a) select c.ax, c.k, c.{A[1]} from c)", pos, None))
    # 6 explicit list always wins
    out.append(("insert_explicit_list", f"insert into {T} (m1, m2) select a.ax, a.k from db.a a", [["db.a.ax", f"{T}.m1"], ["db.a.k", f"{T}.m2"]], "KF-07" if kt else None))
    # 7 star over a derived table of a star
    out.append(("star_derived", f"insert into {T} select * from (select * from db.a) d", to_t(star_a()), "KF-27" if ka and kt else None))
    # 8 star over a CTE of a star
    out.append(("star_cte", f"with c as (select * from db.a) insert into {T} select * from c", to_t(star_a()), "KF-28" if ka else None))
    # 9 fully qualified: metadata is irrelevant
    out.append(("qualified_only", f"insert into {T} (m1, m2) select a.ax, b.bx from db.a a join db.b b on a.k = b.k", [["db.a.ax", f"{T}.m1"], ["db.b.bx", f"{T}.m2"]], "KF-07" if kt else None))
    return out


def _subst(x, m):
    """rename tables throughout a template's sql / metadata / expectation"""
    if isinstance(x, str):
        for a, b in m.items():
            x = x.replace(a, b)
        return x
    if isinstance(x, dict):
        return {_subst(k, m): v for k, v in x.items()}
    if isinstance(x, (list, tuple)):
        return type(x)(_subst(y, m) for y in x)
    return x


def tview(r):
    return {"source": r["source"], "target": r["target"], "intermediate": r["intermediate"], "table_edges": r["table_edges"]}


def run(tier):
    run_ = evidence.Run(PID, tier, rule=RULE)
    rnd = common.rng("c13")
    scratch = tempfile.mkdtemp(prefix="c13_")
    cases, meta = [], []
    try:
        k = 0
        for (A, B, ov) in ((A_NONE, B_NONE, "none"), (A_PART, B_PART, "partial")):
            for ka, kb, kt in itertools.product((True, False), repeat=3):
                md = dict(OTHER)
                if ka:
                    md["db.a"] = A
                if kb:
                    md["db.b"] = B
                if kt:
                    md["db.t"] = T_COLS
                for name, sql, exp, hint in templates(A, B, ka, kb, kt):
                    k += 1
                    for prov in ("dummy", "sqlalchemy"):
                        if prov == "sqlalchemy" and tier == "quick" and k % 5:
                            continue
                        c = {"sql": sql, "dialect": "ansi", "metadata": md, "provider": prov, "want": []}
                        if prov == "sqlalchemy":
                            c["scratch"] = scratch
                        cases.append(c)
                        meta.append(("template", name, exp, hint, (ka, kb, kt), ov))
                    # the catalog spells its names in upper / mixed case (as many databases report them): unquoted references still mean them
                    if k % 3 == 0 and (ka or kb or kt):
                        # (column names only: the dict-backed provider is keyed by the table names exactly as its user spelled them)
                        mdu = {t: [c.upper() if k % 2 else c[0].upper() + c[1:] for c in cols] for t, cols in md.items()}
                        for prov in ("dummy", "sqlalchemy"):
                            if prov == "sqlalchemy" and tier == "quick" and k % 2:
                                continue
                            c = {"sql": sql, "dialect": "ansi", "metadata": mdu, "provider": prov, "want": []}
                            if prov == "sqlalchemy":
                                c["scratch"] = scratch
                            cases.append(c)
                            meta.append(("template", name, exp, hint, (ka, kb, kt), ov + ":catalog_case"))
                    # namesakes: the same template over tables that share their bare name across schemas (source dw.orders, target stg.orders)
                    if ka != kt and name in ("star_single", "insert_positional", "star_derived", "star_cte", "star_qualified", "unqualified_ax", "insert_explicit_list"):
                        sub = lambda x: _subst(x, {"db.a": "dw.orders", "db.t": "stg.orders"})  # noqa: E731
                        for prov in ("dummy", "sqlalchemy"):
                            if prov == "dummy" and tier == "quick" and k % 3:
                                continue
                            c = {"sql": sub(sql), "dialect": "ansi", "metadata": sub(md), "provider": prov, "want": []}
                            if prov == "sqlalchemy":
                                c["scratch"] = scratch
                            cases.append(c)
                            meta.append(("template", name, sub(exp), hint, (ka, kb, kt), ov + ":namesakes"))
        # generated statements over schema-qualified tables with random metadata: table-level invariance + all-unknown equals no metadata
        g = sqlgen.Gen(random.Random(common.env.seed() * 86028121 + 17), schemas=("sa", "sb"), qualify_p=1.0)
        n = 300 if tier == "quick" else 4000
        for i in range(n):
            st = g.statement(rnd.choice([1, 2, 2]), kinds=["insert", "insert", "ctas", "create_view", "insert_cols", "update_from", "merge", "with_insert", "bare"])
            sql = sqlgen.render(st)
            tabs = sorted(st.reads() | st.writes())
            tabs = [t for t in tabs if not t.startswith("path:")]
            md = dict(OTHER)
            mode = rnd.choice(["random", "random", "all_unknown"])
            if mode == "random":
                for t in tabs:
                    if rnd.random() < 0.5:
                        md[t] = rnd.sample(["c_1", "c_2", "c_3", "k_1", "cu_1", "cu_2", "o_1", "zz"], rnd.randint(1, 4))
            cases.append({"sql": sql, "dialect": "ansi", "metadata": md, "provider": "dummy", "want": []})
            meta.append(("generated", mode, None, None, None, None))
        run_.need("with_vs_without_compared")
        run_.need("attributions_checked")
        run_.need("sqlalchemy_provider_cases")
        base_cases = {}
        for c in cases:
            base_cases.setdefault(c["sql"], {"sql": c["sql"], "dialect": "ansi", "want": []})
        keys = list(base_cases)
        with Pool() as pool:
            bres = pool.map("vlib.observe:run_case", [base_cases[k_] for k_ in keys], timeout=180)
            recs = pool.map("vlib.observe:run_case", cases, timeout=300)
            # the same case again on a provider that has just served a run which failed half-way (after writing to the very tables the
            # template is about): the answer must be the one the provider gives when fresh
            FAIL = "insert into db.a (ax) select q from zz.other; create table db.b as select q as bx from zz.other; insert into db.t (tp) select q from zz.other; selec * frm"
            seq_idx = [i for i, (c, m) in enumerate(zip(cases, meta)) if m[0] == "template" and i % (4 if tier == "quick" else 2) == 0]
            seq = pool.map("vlib.observe:run_sequence_same_provider",
                           [[dict(cases[i], sql=FAIL), cases[i]] for i in seq_idx], timeout=400)
        base = {k_: r for k_, (s, r) in zip(keys, bres) if s == "ok"}
    finally:
        shutil.rmtree(scratch, ignore_errors=True)
    by_template = {}
    run_.need("after_failed_run_compared")
    for i, (s2, r2) in zip(seq_idx, seq):
        c = cases[i]
        b = {"sql": c["sql"], "metadata": c["metadata"], "provider": c["provider"], "template": meta[i][1], "after": "a run on the same provider that failed at its last statement"}
        s1, r1 = recs[i]
        if not (run_.pool_status(s2, r2, b) and s1 == "ok"):
            continue
        first, again = r2
        if first["outcome"] == "ok" or r1["outcome"] != "ok" or again["outcome"] != "ok":
            if r1["outcome"] == "ok" and again["outcome"] != "ok":
                run_.judge(b, "raises_after_a_failed_run_on_the_same_provider", again["outcome"], kf_id=None)
            continue
        run_.observe("after_failed_run_compared")
        p1 = sorted(map(list, {tuple(p) for p in r1["column_pairs"]}))
        p2 = sorted(map(list, {tuple(p) for p in again["column_pairs"]}))
        if p1 != p2 or tview(r1) != tview(again):
            run_.judge(b, "answer_differs_after_a_failed_run_on_the_same_provider", {"fresh_provider": p1[:10], "after_failed_run": p2[:10]}, kf_id=None)
    for c, (kind, name, exp, hint, known, ov), (s, r) in zip(cases, meta, recs):
        b = {"sql": c["sql"], "metadata": c["metadata"], "provider": c["provider"], "template": name, "known(a,b,t)": known, "overlap": ov}
        if not run_.pool_status(s, r, b):
            run_.case()
            continue
        b0 = base.get(c["sql"])
        if b0 is None or b0["outcome"] != "ok" or r["outcome"] != "ok":
            if r["outcome"] != "ok" and b0 is not None and b0["outcome"] == "ok":
                run_.judge(b, "raises_only_with_metadata", r["outcome"], kf_id=None)
            run_.case()
            continue
        run_.case(evidence.sha((c["sql"], c["metadata"], c["provider"])), nontrivial=True,
                  sample={"sql": c["sql"], "metadata": c["metadata"], "pairs": r["column_pairs"][:6]} if len(run_.samples) < 5 and kind == "template" and known == (True, False, True) else None)
        if c["provider"] == "sqlalchemy":
            run_.observe("sqlalchemy_provider_cases")
        run_.observe("with_vs_without_compared")
        # 1. metadata never changes table-level lineage
        if tview(r) != tview(b0):
            run_.judge(b, "metadata_changes_table_lineage", {"with": tview(r), "without": tview(b0)}, kf_id=None)
            continue
        pairs = sorted(map(list, {tuple(p) for p in r["column_pairs"]}))
        if kind == "generated":
            # 5. tables the provider does not know get the same answer as without metadata
            if name == "all_unknown" and pairs != sorted(map(list, {tuple(p) for p in b0["column_pairs"]})):
                run_.judge(b, "unknown_tables_answer_differs_from_no_metadata", {"with": pairs[:10], "without": b0["column_pairs"][:10]}, kf_id=None)
            continue
        by_template[name] = by_template.get(name, 0) + 1
        if exp is None:
            continue
        run_.observe("attributions_checked")
        if isinstance(exp, tuple) and exp[0] == "attr":
            _, cname, owners, forbidden = exp
            got_owners = sorted({p[0].rsplit(".", 1)[0] for p in pairs if p[0].endswith("." + cname) and not p[0].startswith("<")})
            unresolved = [p for p in pairs if p[0].startswith("<") and p[0].endswith("." + cname)]
            bad = None
            if any(f in got_owners for f in forbidden):
                bad = "attributed to a known table whose metadata lacks the column"
            elif owners and sorted(owners) != got_owners:
                bad = "not attributed to exactly the in-scope tables whose metadata lists it"
            elif not owners and got_owners:
                bad = "attributed although no in-scope table's metadata lists it"
            elif owners and unresolved:
                bad = "attributed, yet an un-attributed copy of the column still feeds a target column"
            elif owners:
                # every target column the select item feeds must receive the attributed source
                tgts = {p[1] for p in pairs if p[0].endswith("." + cname)}
                for tcol in tgts:
                    if sorted({p[0].rsplit(".", 1)[0] for p in pairs if p[1] == tcol and p[0].endswith("." + cname)}) != sorted(owners):
                        bad = "a target column fed by the column does not receive exactly the attributed sources"
            if bad:
                run_.judge(b, "unqualified_column_attribution", {"problem": bad, "column": cname, "expected_owners": owners, "observed_owners": got_owners,
                                                                 "unresolved": unresolved, "forbidden": forbidden}, kf_id=None)
            continue
        expd = sorted(map(list, {tuple(p) for p in exp}))
        if pairs != expd:
            run_.judge(b, "metadata_refinement_differs:" + name, {"expected": expd, "observed": pairs}, kf_id=hint)
    run_.extra.update({"templates": by_template, "assignments": 16, "providers": ["DummyMetaDataProvider", "SQLAlchemyMetaDataProvider(sqlite scratch files)"]})
    run_.assumptions = ["select lists and known target column lists have the same length (a mismatch is invalid SQL, the property does not speak about it)",
                        "which of two known tables a shared column name of SELECT * is attributed to is not decided by the property (table level only for that shape)"]
    return run_.finish()


def replay(path):
    rep = common.load_replay(path)
    c = rep["case"]
    scratch = tempfile.mkdtemp(prefix="c13_")
    try:
        with Pool(1) as pool:
            case = {"sql": c["sql"], "dialect": "ansi", "metadata": c["metadata"], "provider": c["provider"], "want": [], "scratch": scratch}
            st, r = pool.call(0, "vlib.observe:run_case", case, timeout=300)
    finally:
        shutil.rmtree(scratch, ignore_errors=True)
    pairs = sorted(map(list, {tuple(p) for p in (r or {}).get("column_pairs", [])}))
    print(pairs)
    exp = rep["detail"].get("expected") if isinstance(rep["detail"], dict) else None
    bad = exp is not None and pairs != exp
    if bad:
        print(f"VIOLATION property={PID} replay={path}")
    return 1 if bad else 0
