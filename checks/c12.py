"""C12 - runs are isolated from one another (fault enumeration).
History monitor (run B after history H vs B in a fresh process), session-balance monitor at every return/raise,
crash points (failing statement at every position, provider fault at every lookup, line-level failpoints),
thread monitor (16 threads with own providers/configs under yield injection)."""
import random

from vlib import corpus, env, evidence
from vlib.pool import Pool, NCPU
from . import common

PID = "C12"
RULE = ("execution = history of 1-4 runs (some failing: unsupported/unparsable statement at position k, provider raising at its j-th lookup, InjectedFault at "
        "the n-th line event inside the run's work) on a default/shared/fresh provider, followed by run B; B must equal B in a fresh process, the session "
        "tap must balance and the provider must answer as a fresh one; plus 16-thread rounds with seeded yield injection; "
        "non-trivial = distinct (history, sharing) or fault point whose monitors observed at least one session event")

MD = {"db.s1": ["c1", "c2", "k"], "db.s2": ["c3", "k"], "db.zz": ["q"]}
TEACH = [
    ["create table db.t1 as select c1, c2 from db.s1"],
    ["create table db.t1 as select c1, c2 from db.s1", "insert into db.u select * from db.t1"],
    ["insert into db.t2 select c3 from db.s2", "create view db.v as select * from db.t2"],
    ["create table db.t1 as select s1.c1 as c9, s2.c3 from db.s1 s1 join db.s2 s2 on s1.k = s2.k", "insert into db.u select c9 from db.t1 join db.s2 on 1 = 1"],
    ["create table db.t1 as select * from db.s1", "create table db.t2 as select * from db.t1", "insert into db.u select * from db.t2"],
    ["create table t1 as select c1 from db.s1", "insert into u select * from t1"],
    # the same table written more than once in one run (session definition replaced), then consumed
    ["create table db.t1 as select c1, c2 from db.s1", "insert into db.t1 select c3 as c1, k as c2 from db.s2", "insert into db.u select * from db.t1"],
    ["create table db.t2 as select c1 from db.s1", "create view db.t2 as select c2, k from db.s1", "insert into db.t2 select c3, k from db.s2"],
    # a table the provider already knows is rebuilt by the script
    ["create table db.zz as select c1 as q2, c2 as q3 from db.s1", "insert into db.u select * from db.zz"],
]
PROBES = [
    "insert into db.u select * from db.t1",
    "insert into db.u select c1 from db.t1 join db.s2 on 1 = 1",
    "insert into db.u select c9 from db.t1 join db.s1 on 1 = 1",
    "create table db.w as select * from db.t2",
    "insert into db.u select * from db.v",
    "select * from db.t1",
    "insert into u select * from t1",
    "insert into db.u select * from db.s1 join db.t1 on 1 = 1",
    "insert into db.u select * from db.t2",
    "insert into db.u select * from db.zz",
    "insert into db.u select q from db.zz join db.t1 on 1 = 1",
]
BAD = {"unsupported": "create index ix on db.s1 (c1)", "unparsable": "selec * frm db.s1 wher"}


def script(stmts):
    return ";\n".join(stmts)


def failing_variants(stmts):
    out = []
    for kind, bad in BAD.items():
        for k in range(len(stmts) + 1):
            out.append({"sql": script(stmts[:k] + [bad] + stmts[k:]), "dialect": "ansi", "fault": f"{kind}@{k}"})
    return out


def histories(tier, rnd):
    pool_runs = []
    for t in TEACH:
        pool_runs.append({"sql": script(t), "dialect": "ansi"})
        pool_runs += failing_variants(t)
        for j in range(1, 7):
            pool_runs.append({"sql": script(t), "dialect": "ansi", "provider": "faulty", "fail_at": j, "fault": f"lookup@{j}"})
    multi = [c for c in corpus.suite() if c["sql"].count(";") >= 1 and c["dialect"] != "non-validating" and not c["metadata"]][:40]
    for c in multi:
        pool_runs.append({"sql": c["sql"], "dialect": c["dialect"]})
    probes = [{"sql": p, "dialect": "ansi"} for p in PROBES] + [{"sql": script(t), "dialect": "ansi"} for t in TEACH]
    hs = []
    # crash-point enumeration: every failing variant alone, then the fault-free script on the same provider
    for sharing in ("shared", "default", "fresh"):
        for t in TEACH:
            good = {"sql": script(t), "dialect": "ansi"}
            for f in failing_variants(t):
                hs.append({"runs": [f], "B": good, "sharing": sharing, "metadata": MD, "class": "crash:" + f["fault"].split("@")[0]})
            if sharing != "default":
                for j in range(1, 9 if tier == "thorough" else 6):
                    hs.append({"runs": [{"sql": script(t), "dialect": "ansi", "provider": "faulty", "fail_at": j, "fault": f"lookup@{j}"}],
                               "B": good, "sharing": sharing, "metadata": MD, "class": "crash:lookup"})
            if sharing != "fresh" or tier == "thorough":
                for p in PROBES:
                    hs.append({"runs": [good], "B": {"sql": p, "dialect": "ansi"}, "sharing": sharing, "metadata": MD, "class": "teach-probe"})
    n = 250 if tier == "quick" else 5000
    for i in range(n):
        sharing = rnd.choice(["shared", "shared", "default", "fresh"])
        runs = [dict(rnd.choice(pool_runs)) for _ in range(rnd.randint(1, 4))]
        hs.append({"runs": runs, "B": dict(rnd.choice(probes)), "sharing": sharing, "metadata": MD, "class": "random"})
    return hs


def config_dir_histories(base):
    """runs that differ in the directory their sqlfluff configuration comes from (LineageRunner(file_path=...)): sibling directories with
    different templater contexts, given as directories and as files inside them"""
    import os
    ctx = {"staging": ("raw.orders", "staging.orders"), "marts": ("staging.orders", "marts.revenue"), "extra": ("marts.revenue", "rpt.daily")}
    for name, (src, tgt) in ctx.items():
        os.makedirs(os.path.join(base, "models", name), exist_ok=True)
        with open(os.path.join(base, "models", name, ".sqlfluff"), "w") as fh:
            fh.write(f"[sqlfluff]\ntemplater = jinja\n\n[sqlfluff:templater:jinja:context]\nsrc = {src}\ntgt = {tgt}\n")
        open(os.path.join(base, "models", name, "q.sql"), "w").write("select 1")
    sql = "insert into {{ tgt }} select a, b from {{ src }}"
    spell = lambda n, as_file: os.path.join(base, "models", n, "q.sql") if as_file else os.path.join(base, "models", n)  # noqa: E731
    hs = []
    for a in ctx:
        for b in ctx:
            if a == b:
                continue
            for fa in (False, True):
                for fb in (False, True):
                    hs.append({"runs": [{"sql": sql, "dialect": "ansi", "file_path": spell(a, fa)}], "B": {"sql": sql, "dialect": "ansi", "file_path": spell(b, fb)},
                               "sharing": "default", "metadata": None, "class": "config-directory"})
    return hs


def fresh_case(h):
    c = dict(h["B"])
    if h["sharing"] != "default":
        c["metadata"] = h["metadata"]
        c["provider"] = "dummy"
    else:
        c["provider"] = "default"
    return c


def run(tier):
    run_ = evidence.Run(PID, tier, level="fault_enumeration", rule=RULE)
    rnd = common.rng("c12")
    hs = histories(tier, rnd)
    import shutil
    import tempfile
    scratch = tempfile.mkdtemp(prefix="c12_")
    hs += config_dir_histories(scratch)
    for k in ("session_events_observed", "registered_tables_checked", "B_comparisons", "lookup_faults_fired", "line_failpoints_fired", "thread_records_compared", "thread_yields_injected", "thread_balance_checks"):
        run_.need(k)
    with Pool() as pool:
        fresh_cases = {}
        for h in hs:
            c = fresh_case(h)
            fresh_cases.setdefault(common.case_key(c), c)
        keys = list(fresh_cases)
        fres = pool.map("vlib.isolation:fresh", [fresh_cases[k] for k in keys], timeout=180)
        fresh = {k: r for k, (st, r) in zip(keys, fres) if st == "ok"}
        # restart workers so that histories run in processes that did not compute the fresh answers
    with Pool() as pool:
        hres = pool.map("vlib.isolation:run_history", hs, timeout=300)
        # line-level failpoints
        fp_jobs = []
        scripts = [script(t) for t in TEACH]
        if tier == "quick":
            for i, s in enumerate(scripts[:4]):
                fp_jobs.append({"case": {"sql": s, "dialect": "ansi"}, "metadata": MD, "points": {"sample": 35, "seed": env.seed() * 10 + i}})
        else:
            for i, s in enumerate(scripts):
                fp_jobs.append({"case": {"sql": s, "dialect": "ansi"}, "metadata": MD, "points": "all"})
            for c in [c for c in corpus.suite() if c["metadata"] and c["dialect"] != "non-validating"][:30]:
                fp_jobs.append({"case": {"sql": c["sql"], "dialect": c["dialect"]}, "metadata": c["metadata"], "points": {"sample": 150, "seed": env.seed()}})
        fpres = pool.map("vlib.isolation:failpoints", fp_jobs, timeout=1800)
        # thread monitor
        cs = [c for c in corpus.suite() if c["dialect"] != "non-validating"]
        rnd.shuffle(cs)
        rounds = 2 if tier == "quick" else 12
        per = 110 if tier == "quick" else 300
        tjobs = []
        for r in range(rounds):
            sl = cs[(r * per) % len(cs):][:per]
            cases = []
            for i, c in enumerate(sl):
                cases.append({"sql": c["sql"], "dialect": c["dialect"], "metadata": c["metadata"], "silent": c["silent"],
                              "config": {"DEFAULT_SCHEMA": f"sch{i % 5}"} if i % 5 else {}})
            # scripts whose later statements depend on what earlier ones taught the session (own provider per run)
            for i in range(per // 2):
                t = TEACH[i % len(TEACH)]
                cases.append({"sql": script(t + [PROBES[i % len(PROBES)]]), "dialect": "ansi", "metadata": MD, "silent": False, "config": {}})
                if i % 2 == 0:
                    # the probe alone: on a provider this thread used before, it must see nothing of that provider's earlier runs
                    cases.append({"sql": script([PROBES[(i // 2) % len(PROBES)]]), "dialect": "ansi", "metadata": MD, "silent": False, "config": {}})
            random.Random(env.seed() * 100 + r).shuffle(cases)
            tjobs.append({"cases": cases, "nthreads": 16, "seed": env.seed() * 100 + r, "yield_p": 0.05})
        tres = pool.map("vlib.isolation:threads", tjobs, timeout=1800)
        flat = [c for j in tjobs for c in j["cases"]]
    with Pool() as pool:
        seq = pool.map("vlib.isolation:fresh", flat, timeout=180)

    classes = {}
    for h, (st, r) in zip(hs, hres):
        b = {"runs": [{k: v for k, v in x.items()} for x in h["runs"]], "B": h["B"], "sharing": h["sharing"], "metadata": h["metadata"]}
        if not run_.pool_status(st, r, b):
            run_.case()
            continue
        run_.observe("session_events_observed", r["session_events"])
        run_.observe("registered_tables_checked", r["registered_tables"])
        fired = sum(1 for x, info in zip(h["runs"], r["runs"]) if x.get("provider") == "faulty" and info["outcome"] == "InjectedLookupFault")
        run_.observe("lookup_faults_fired", fired)
        classes[h["class"]] = classes.get(h["class"], 0) + 1
        run_.case(evidence.sha(b), nontrivial=r["session_events"] > 0,
                  sample={"history": [x["sql"] for x in h["runs"]], "faults": [x.get("fault") for x in h["runs"]], "B": h["B"]["sql"], "sharing": h["sharing"],
                          "run_outcomes": [x["outcome"] for x in r["runs"]]} if len(run_.samples) < 4 and any(x.get("fault") for x in h["runs"]) else None)
        for bad in r["balance"]:
            run_.judge(b, "session_not_clean:" + bad["what"], bad, kf_id=None)
        for info in r["runs"]:
            if info["session_left"]:
                run_.judge(b, "session_map_not_empty_after_run", info, kf_id=None)
        fk = common.case_key(fresh_case(h))
        if fk not in fresh:
            run_.inconc("no fresh record for B")
            continue
        run_.observe("B_comparisons")
        if r["B"] != fresh[fk]:
            diff = [k for k in r["B"] if r["B"][k] != fresh[fk][k]]
            run_.judge(b, "B_depends_on_history", {"fields": diff, "after_history": {k: r["B"][k] for k in diff}, "fresh": {k: fresh[fk][k] for k in diff},
                                                    "run_outcomes": r["runs"]}, kf_id=None)
    fp_tot = {"points_total": 0, "points_run": 0, "swallowed": 0, "raised": 0, "fired_sites": 0}
    for j, (st, r) in zip(fp_jobs, fpres):
        if not run_.pool_status(st, r, j["case"]):
            run_.case()
            continue
        for k in fp_tot:
            fp_tot[k] += r[k]
        run_.observe("line_failpoints_fired", r["raised"] + r["swallowed"])
        run_.observe("registered_tables_checked", r["registered_tables"])
        run_.evaluations += r["points_run"]
        for n in range(r["points_run"]):
            run_.nontrivial.add(evidence.sha((j["case"]["sql"], "fp", n)))
        for f in r["findings"]:
            run_.judge({"case": j["case"], "metadata": j["metadata"], "fault": f.get("fault")}, "failpoint:" + f["what"], f, kf_id=None)
    off = 0
    tstats = {"yields": 0, "handoff_sites": 0, "rounds": 0}
    for j, (st, r) in zip(tjobs, tres):
        ncase = len(j["cases"])
        ref = seq[off:off + ncase]
        cases = flat[off:off + ncase]
        off += ncase
        if not run_.pool_status(st, r, {"threads_round": j["seed"]}):
            run_.case()
            continue
        if r["errors"] or r["alive"]:
            run_.inconc(f"thread round harness problem: {r['errors'][:2]} alive={r['alive']}")
        tstats["yields"] += r["yields"]
        tstats["handoff_sites"] = max(tstats["handoff_sites"], r["handoff_sites"])
        tstats["rounds"] += 1
        run_.observe("thread_yields_injected", r["yields"])
        run_.observe("thread_balance_checks", r.get("balance_checks", 0))
        for lk in r.get("leaks", []):
            run_.judge({"case": common.brief(cases[lk["case_index"]]), "threads": 16, "round_seed": j["seed"]}, "session_store_not_empty_after_a_run_in_a_thread", lk, kf_id=None)
        for c, got, (st2, want) in zip(cases, r["records"], ref):
            if got is None or st2 != "ok":
                run_.inconc("thread record missing")
                continue
            run_.observe("thread_records_compared")
            run_.case(evidence.sha(("thr", j["seed"], c["sql"], c["dialect"], c.get("config"))), nontrivial=got["outcome_type"] == "ok")
            if got != want:
                diff = [k for k in got if got[k] != want[k]]
                run_.judge({"case": common.brief(c), "threads": 16, "round_seed": j["seed"]}, "concurrent_run_differs_from_sequential",
                           {"fields": diff, "concurrent": {k: got[k] for k in diff}, "sequential": {k: want[k] for k in diff}}, kf_id=None)
    # sessions of several runs overlapping on one provider object in a prescribed order (turn-based gates at session enter / exit)
    A = "create table ov_t1 as select x, y from ov_s; insert into ov_t2 select * from ov_t1"
    B = "create view ov_v1 as select p, q from ov_r; insert into ov_w select * from ov_v1"
    C = "create table ov_t3 as select m from ov_n"
    after = "insert into ov_fin select * from ov_t1; insert into ov_fin2 select * from ov_v1; insert into ov_fin3 select * from ov_t3"
    omd = {"<default>.ov_s": ["x", "y", "z"], "<default>.ov_r": ["p", "q"]}
    scheds = {"crossing": ({"A": A, "B": B}, ["A.enter", "A.at_exit", "B.enter", "B.at_exit", "A.exit", "B.exit"]),
              "crossing_reversed": ({"A": A, "B": B}, ["B.enter", "B.at_exit", "A.enter", "A.at_exit", "B.exit", "A.exit"]),
              "nested": ({"A": A, "B": B}, ["A.enter", "B.enter", "B.at_exit", "B.exit", "A.at_exit", "A.exit"]),
              "entered_together": ({"A": A, "B": B}, ["A.enter", "B.enter", "A.at_exit", "B.at_exit", "A.exit", "B.exit"]),
              "chain_of_three": ({"A": A, "B": B, "C": C}, ["A.enter", "A.at_exit", "B.enter", "A.exit", "B.at_exit", "C.enter", "B.exit", "C.at_exit", "C.exit"]),
              "three_crossing": ({"A": A, "B": B, "C": C}, ["A.enter", "A.at_exit", "B.enter", "B.at_exit", "C.enter", "A.exit", "C.at_exit", "B.exit", "C.exit"])}
    ojobs = [{"name": k, "scripts": sc, "order": od, "after": after, "metadata": omd, "dialect": d} for k, (sc, od) in scheds.items() for d in ("ansi", "non-validating")]
    run_.need("overlap_schedules_completed")
    with Pool(min(NCPU, len(ojobs))) as pool:
        ores = pool.map("vlib.isolation:overlap", ojobs, timeout=600)
    for j, (st, r) in zip(ojobs, ores):
        b = {"overlap_schedule": j["name"], "order": j["order"], "scripts": j["scripts"], "after": j["after"], "dialect": j["dialect"]}
        if not run_.pool_status(st, r, b):
            run_.case()
            continue
        run_.case(evidence.sha(("overlap", j["name"], j["dialect"])), nontrivial=bool(r["schedule_completed"] and r["learned"]))
        if not r["schedule_completed"]:
            run_.inconc(f"overlap schedule {j['name']} did not complete: stuck={r['stuck']} alive={r['alive']}")
            continue
        run_.observe("overlap_schedules_completed")
        run_.observe("registered_tables_checked", len(r["learned"]))
        for bad in r["bad"]:
            run_.judge(b, "session_not_clean_after_overlapping_runs:" + bad["what"], bad, kf_id=None)
        if r["after_reused"] != r["after_fresh"]:
            diff = [k for k in r["after_reused"] if r["after_reused"][k] != r["after_fresh"][k]]
            run_.judge(b, "run_after_overlapping_runs_differs_from_fresh_provider", {"fields": diff, "reused": {k: r["after_reused"][k] for k in diff}, "fresh": {k: r["after_fresh"][k] for k in diff}}, kf_id=None)
    run_.extra.update({"history_classes": classes, "line_failpoints": fp_tot, "threads": tstats, "overlap_schedules": sorted(scheds),
                       "fault_model": "failing statements, failing provider lookups, exceptions at line events inside analyze/register/lookup/of; "
                                      "not injected inside the cleanup path itself (MetaDataSession.__exit__/deregister): that models an asynchronous exception no context manager guards against"})
    run_.exhaustive = False
    run_.assumptions = ["the session tap sees every register/deregister/lookup", "B's fresh record is computed in a different worker process than the history",
                        "runs that share one provider concurrently are not compared with sequential runs (the property speaks of own providers); for prescribed overlaps only the state after all of them ended is judged"]
    shutil.rmtree(scratch, ignore_errors=True)
    return run_.finish()


def replay(path):
    rep = common.load_replay(path)
    c = rep["case"]
    if "runs" in c:
        with Pool(2) as pool:
            st, r = pool.call(0, "vlib.isolation:run_history", c, timeout=300)
            h = {"B": c["B"], "sharing": c["sharing"], "metadata": c["metadata"]}
            st2, f = pool.call(1, "vlib.isolation:fresh", fresh_case(h), timeout=180)
        bad = st == "ok" and (r["balance"] or r["B"] != f or any(i["session_left"] for i in r["runs"]))
        print(st, r.get("balance") if r else None, "B equal" if r and r["B"] == f else "B differs")
        if bad:
            print(f"VIOLATION property={PID} replay={path}")
        return 1 if bad else 0
    if "overlap_schedule" in c:
        with Pool(1) as pool:
            st, r = pool.call(0, "vlib.isolation:overlap", {"scripts": c["scripts"], "order": c["order"], "after": c["after"], "dialect": c["dialect"],
                                                           "metadata": {"<default>.ov_s": ["x", "y", "z"], "<default>.ov_r": ["p", "q"]}}, timeout=600)
        bad = st == "ok" and r["schedule_completed"] and (r["bad"] or r["after_reused"] != r["after_fresh"])
        print(st, r.get("bad") if r else None)
        if bad:
            print(f"VIOLATION property={PID} replay={path}")
        return 1 if bad else 0
    print("replay of failpoint/thread findings: re-run the check")
    return 0
