"""C08 - lineage is invariant under renaming of statement-local names (metamorphic monitor at AST level)."""
import random

from vlib import evidence, sqlgen
from vlib.pool import Pool
from . import common

PID = "C08"
RULE = ("case = generated statement x transformation {injective renaming of table aliases, derived-table aliases and CTE names from an adversarial pool (bare names of the "
        "statement's other base tables incl. ones aliased away in the same scope, column names, mixed case, quoted mixed-case identifiers, non-reserved words), add alias, drop alias, toggle AS}; the new name never "
        "equals another relation name visible in the same FROM scope; tables and end-to-end column pairs of original and transformed statement must be equal (local names mapped); "
        "non-trivial = both analyses returned and the transformation changed the text")

WORDS = ["name", "type", "value", "status", "level", "data", "source", "target"]


QUOTES = {"mysql": "`", "sparksql": "`", "bigquery": "`", "tsql": "[", "non-validating": '"'}


def _norm(n):
    """what an identifier token denotes: quoted keeps its case, unquoted folds to lower case"""
    if n[:1] in '"`[':
        return n[1:-1]
    return n.lower()


def map_desc(d, mapping):
    if d.startswith("<") and "|" in d:
        cands, _, col = d[1:].rpartition(">.")
        cs = sorted(_norm(mapping[c]) if c in mapping else c for c in cands.split("|"))
        # two references to one relation collapse into one candidate
        cs = sorted(set(cs))
        return ("<" + "|".join(cs) + ">." + col) if len(cs) > 1 else f"{cs[0]}.{col}"
    owner, _, col = d.rpartition(".")
    if owner in mapping:
        return f"{_norm(mapping[owner])}.{col}"
    return d


def view(r, mapping=None):
    if r["outcome"] != "ok":
        return {"outcome": r["outcome"]["exc_type"]}
    pairs = r["column_pairs"]
    if mapping:
        pairs = [[map_desc(a, mapping), map_desc(b, mapping)] for a, b in pairs]
    return {"outcome": "ok", "source": r["source"], "target": r["target"], "intermediate": r["intermediate"], "column_pairs": sorted(map(list, {tuple(p) for p in pairs}))}


def run(tier):
    run_ = evidence.Run(PID, tier, rule=RULE)
    rnd = common.rng("c08")
    n = 420 if tier == "quick" else 5000
    per = 4 if tier == "quick" else 8
    g = sqlgen.Gen(random.Random(common.env.seed() * 49979687 + 9), alias_p=0.7)
    kinds = ["insert", "insert", "insert_cols", "ctas", "create_view", "bare", "update_from", "merge", "with_insert", "with_insert"]
    cases, meta = [], []
    from vlib.sqlgen import Base, Group, Item, Select, Stmt, col
    extra = []
    for i in range(18 if tier == "quick" else 150):
        # two tables with one bare name from different schemas in one FROM clause: the un-aliased one is referred to by its bare name,
        # the other one by its alias (or the other way round)
        nm = f"tb_sn{i}"
        s1, s2 = rnd.sample(["sa", "sb", None], 2)
        first_plain = i % 2 == 0
        a, b = (Base(nm, s1, None), Base(nm, s2, f"x{i}a")) if first_plain else (Base(nm, s1, f"x{i}a"), Base(nm, s2, None))
        q = Select([Item(col("c_1", a.key()), "o_1"), Item(col("c_2", b.key()), "o_2"), Item(col("c_3", a.key()))], [Group(a, [(rnd.choice(["inner", "left"]), b, "on")])])
        extra.append(Stmt(rnd.choice(["insert", "ctas"]), Base(f"tb_sw{i}"), q))
    from vlib.sqlgen import Derived, P
    for i in range(18 if tier == "quick" else 150):
        # stars over several derived tables / tables that expose a column of the same name (the join key): which one feeds it must not
        # depend on how the aliases are spelled
        def dt(tab, alias, extra_col):
            return Derived(Select([Item(col("k_1")), Item(col(extra_col))], [Group(Base(tab))]), alias)
        a1, a2, a3 = f"xa{i}", f"xb{i}", f"xc{i}"
        rels = [dt(f"tb_sa{i}", a1, "c_1"), dt(f"tb_sb{i}", a2, "c_2")]
        if i % 3 == 0:
            rels.append(dt(f"tb_sc{i}", a3, "c_3"))
        items = [Item(None, is_star=True)] if i % 2 else [Item(None, is_star=True, star_q=r_.key()) for r_ in reversed(rels)]
        q = Select(items, [Group(rels[0], [("inner", r_, "on") for r_ in rels[1:]])])
        extra.append(Stmt(rnd.choice(["insert", "ctas"]), Base(f"tb_sz{i}"), q))
    for i in range(24 if tier == "quick" else 200):
        # UPDATE ... FROM with sub-queries of its own scopes: WHERE IN / EXISTS over an aliased table, a derived table in FROM
        src = Base(f"tb_us{i}", rnd.choice([None, "sa"]), f"s{i}")
        inner = Base(f"tb_uo{i}", None, f"o{i}" if i % 3 else None)
        sub = Select([Item(col("k_1", inner.key()))], [Group(inner)])
        frm = [Group(src)]
        if i % 4 == 0:
            d = Derived(Select([Item(col("c_1", f"e{i}")), Item(col("c_2", f"e{i}"), "o_2")], [Group(Base(f"tb_ue{i}", None, f"e{i}"))]), f"d{i}")
            frm = [Group(src, [("inner", d, "on")])]
        sets = [("c_1", col("c_1", src.key())), ("c_9", col("c_3", src.key()))]
        if i % 4 == 0:
            sets.append(("c_8", col("o_2", f"d{i}")))
        where = P(rnd.choice(["in", "exists"]), colref=col("k_1", src.key()), query=sub)
        extra.append(Stmt("update", Base(f"tb_ut{i}"), None, None, {"set": sets, "from": frm, "where": where}))
    for i in range(12 if tier == "quick" else 100):
        # MERGE whose target carries an alias and whose UPDATE SET reads the matched target row through it (beside source columns)
        tal = f"t{i}"
        tgt = Base(f"tb_mt{i}", rnd.choice([None, "sa"]), tal, use_as=bool(i % 2))
        src = Base(f"tb_ms{i}", None, f"s{i}")
        extra.append(Stmt("merge", tgt, None, None, {"source": src, "update": [("c_1", "c_1")], "self": [("c_9", col("c_2", tal))], "insert": [("k_1", "k_1")] if i % 2 else []}))
    # CTEs that read themselves without the RECURSIVE keyword (the only spelling tsql / oracle / db2 have): the self reference is the CTE under any name
    from . import c01 as _c01
    extra += [st_ for _, st_, _ds in _c01.recursive_cte_cases(12 if tier == "quick" else 100, common.env.seed() * 7 + 5)]
    for i in range(n + len(extra)):
        st = g.statement(rnd.choice([1, 2, 2, 3]), kinds=kinds) if i < n else extra[i - n]
        sql = sqlgen.render(st)
        tags = sorted(st.tags() | set(sqlgen.risk(st)))
        tables = sorted({rel.name for _, rel in sqlgen.all_rels(st) if rel.kind == "base"})
        cols = sorted({e.name for e in sqlgen.all_exprs(st) if e.kind == "col"})[:4]
        d = "ansi" if i % 3 else rnd.choice(["mysql", "postgres", "sparksql", "snowflake", "bigquery", "tsql", "non-validating"])
        # non-reserved words are offered only to sqlfluff dialects: the legacy analyzer's lexer treats them as keywords (KF-30d territory)
        q = QUOTES.get(d, '"')
        # quoted mixed-case names are offered to sqlfluff dialects only: the legacy analyzer lower-cases every quoted identifier (KF-16c, decided by C16)
        quoted = [(q + n + ("]" if q == "[" else q)) for n in (["MiX%d" % rnd.randrange(99), "Order%d" % rnd.randrange(9)] if d != "non-validating" else []) + ["lo_%d" % rnd.randrange(99)]]
        pool = tables + cols + ["Zq%d" % rnd.randrange(99), "QW_%d" % rnd.randrange(99)] + quoted + (rnd.sample(WORDS, 2) if d != "non-validating" else [])
        if not common.is_core_for(d, tags):
            d = "ansi"
        cases.append({"sql": sql, "dialect": d, "want": []})
        meta.append(("orig", i, None, tags, sql))
        modes = ["rename"] * (per - 2) + ["toggle_as", rnd.choice(["add_alias", "drop_alias"])]
        seen = {sql}
        for k, mode in enumerate(modes):
            st2, mapping = sqlgen.alpha_rename(st, random.Random(common.env.seed() * 1000003 + i * 31 + k), mode, pool=pool)
            sql2 = sqlgen.render(st2)
            if sql2 in seen:
                continue
            seen.add(sql2)
            cases.append({"sql": sql2, "dialect": d, "want": []})
            meta.append((mode, i, mapping, tags, sql))
    run_.need("renamings_compared")
    with Pool() as pool_:
        recs = pool_.map("vlib.observe:run_case", cases, timeout=180)
    orig = {}
    by_mode = {}
    rejected = 0
    for case, (mode, i, mapping, tags, osql), (s, r) in zip(cases, meta, recs):
        if mode == "orig":
            orig[i] = (s, r)
            continue
        b = {"sql": osql, "renamed_sql": case["sql"], "dialect": case["dialect"], "mode": mode, "mapping": mapping, "tags": tags}
        so, ro = orig[i]
        if not (run_.pool_status(s, r, b) and run_.pool_status(so, ro, b)):
            run_.case()
            continue
        # the original's local names are mapped to the new ones before comparing
        a, e = view(ro, mapping), view(r)
        both = a["outcome"] == "ok" and e["outcome"] == "ok"
        run_.case(evidence.sha((case["sql"], case["dialect"])), nontrivial=both,
                  sample={"original": osql, "renamed": case["sql"], "mapping": mapping} if both and mapping and len(run_.samples) < 5 and len(osql) < 400 else None)
        if not both:
            if a["outcome"] != e["outcome"]:
                if a["outcome"] in ("InvalidSyntaxException", "UnsupportedStatementException"):
                    rejected += 1  # the dialect does not accept the original statement: nothing to compare
                    continue
                if a["outcome"] == "ok" and e["outcome"] in ("InvalidSyntaxException",):
                    rejected += 1  # the new name is not accepted as an identifier by this dialect
                    continue
                run_.judge(b, "outcome_differs", {"original": a["outcome"], "renamed": e["outcome"]}, kf_id=None)
            continue
        run_.observe("renamings_compared")
        by_mode[mode] = by_mode.get(mode, 0) + 1
        diff = [k for k in a if a[k] != e[k]]
        if diff:
            det = {"fields": diff}
            for k in diff:
                det[k] = {"original_mapped_minus_renamed": [x for x in a[k] if x not in e[k]][:8], "renamed_minus_original": [x for x in e[k] if x not in a[k]][:8]}
            b["_det"] = det
            kfid = classify(b, diff, a, e)
            b.pop("_det", None)
            run_.judge(b, "lineage_changed_by_renaming:" + mode, det, kf_id=kfid)
    run_.extra.update({"compared_by_mode": by_mode, "renamed_text_rejected_by_dialect": rejected})
    run_.assumptions = ["all generated local names are unique per statement, so one global substitution renames consistently", "correlated references to outer aliases are not generated"]
    return run_.finish()


def _pairs(b, k):
    return b.get("_det", {}).get("column_pairs", {}).get(k, [])


def classify(b, diff, a, e):
    t = set(b["tags"])
    if b["dialect"] == "non-validating" and "col.qualified_by_full_name" in t:
        return "KF-16e"  # schema.table.column: the legacy analyzer takes the schema for the qualifier; an alias added to the table removes that spelling
    def subq_star(k):
        return {c for p in _pairs(b, k) for c in p if c.endswith(".*") and c.count(".") == 1}
    # KF-30e (measured): toggling AS changes nothing but whether a star over a derived table is expanded (the sub-query star is on one side only)
    if b["dialect"] == "non-validating" and b["mode"] == "toggle_as" and diff == ["column_pairs"] and subq_star("original_mapped_minus_renamed") != subq_star("renamed_minus_original"):
        return "KF-30e"
    if b["dialect"] == "non-validating" and any(str(v).startswith("tb_k") for v in (b.get("mapping") or {}).values()):
        return "KF-30e"
    if b["dialect"] == "non-validating" and t & {"select.star_qualified", "select.star"} and diff == ["column_pairs"] and \
            any(p[0].endswith(".*") for k in ("original_mapped_minus_renamed", "renamed_minus_original") for p in _pairs(b, k)):
        return "KF-30e"  # whether the legacy analyzer expands a star over a derived table depends on how the aliases around it are spelled
    # KF-41: the legacy analyzer analyses all branches of a set operation with one alias map: a name bound in two scopes after the renaming
    m = {k: v for k, v in (b.get("mapping") or {}).items()}
    if b["dialect"] == "non-validating" and b["mode"] == "rename" and any(x.startswith("setop.") for x in t) and len({str(v).lower() for v in m.values()}) < len(m):
        return "KF-41"
    # KF-32: which relations of a FROM clause survive this parse quirk depends on whether they carry aliases
    if diff == ["source"] or diff == ["source", "column_pairs"]:
        if "where.in_subquery_comma_join" in t:
            return "KF-32"
    return None


def replay(path):
    rep = common.load_replay(path)
    c = rep["case"]
    with Pool(1) as pool_:
        s1, r1 = pool_.call(0, "vlib.observe:run_case", {"sql": c["sql"], "dialect": c["dialect"], "want": []}, timeout=180)
        s2, r2 = pool_.call(0, "vlib.observe:run_case", {"sql": c["renamed_sql"], "dialect": c["dialect"], "want": []}, timeout=180)
    a, e = view(r1, c.get("mapping")), view(r2)
    bad = a != e
    print("differs" if bad else "equal")
    if bad:
        print(f"VIOLATION property={PID} replay={path}")
    return 1 if bad else 0
