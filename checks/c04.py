"""C04 - column lineage chains across statements: composition monitor (history + model over the statement tap) and
session-knowledge monitor (reference model + session tap)."""
import itertools
import random

from vlib import corpus, evidence
from vlib.pool import Pool
from . import common, c02

PID = "C04"
RULE = ("script = 2-4 generated statements in which later statements read earlier targets (chain shapes: linear, diamond, fan-in, re-write of an intermediate; column overlap: "
        "all/some/none consumed, renamed; star or named select lists; with and without a metadata provider) plus the multi-statement corpus scripts; (a) the end-to-end pairs reported "
        "must equal root->leaf reachability over the union of the per-statement column edges observed by the statement tap (late resolution applied); (b) with a provider, SELECT * "
        "over a table created earlier must expand to exactly the columns that statement gave it and the session tap must show the registration between the two statements; "
        "non-trivial = script whose later statement consumes at least one column of an earlier target")

MD = {"db.s1": ["c1", "c2", "c3"], "db.s2": ["d1", "d2"], "zz.other": ["q"]}


def compose(per_statement, provider_md):
    """independent model of the fold: reachability over the union of per-statement column edges, identity = printed desc"""
    edges = set()
    owned = set()
    for ps in per_statement:
        f = ps.get("facts") or {}
        # identity of a sub-query / CTE owner = printed name + digest of its text (two CTEs called 'base' in two statements are two owners)
        for a, b in f.get("col_edges_rich") or f.get("col_edges", []):
            edges.add((a, b))
        owned.update(f.get("owned_columns_rich") or f.get("owned_columns", []))
        # RENAME: the columns known so far move with their table
        for old, new in f.get("rename_in_order") or f.get("rename") or []:
            def mv(c):
                return new + c[len(old):] if c.startswith(old + ".") else c
            edges = {(mv(a), mv(b)) for a, b in edges}
            owned = {mv(c) for c in owned}
    # late resolution: an unresolved source is replaced by p.name for every candidate p that owns a column of that name anywhere in the
    # combined graph; else (truthy provider, schema-qualified candidate) by the candidates whose metadata lists it
    out = set()
    for a, b in edges:
        if a.startswith("<") and "|" in a:
            cands, _, name = a[1:].rpartition(">.")
            cs = cands.split("|")
            res = [f"{p}.{name}" for p in cs if f"{p}.{name}" in owned]
            if not res and provider_md:
                res = [f"{p}.{name}" for p in cs if not p.startswith("<default>.") and name in (provider_md.get(p) or [])]
            if res:
                for r in res:
                    out.add((r, b))
                continue
        out.add((a, b))
    succ, pred = {}, {}
    nodes = set()
    for a, b in out:
        succ.setdefault(a, set()).add(b)
        pred.setdefault(b, set()).add(a)
        nodes |= {a, b}
    roots = [n for n in nodes if not pred.get(n)]
    pairs = set()
    for r in roots:
        seen, stack = {r}, [r]
        while stack:
            x = stack.pop()
            for y in succ.get(x, ()):
                if y not in seen:
                    seen.add(y)
                    stack.append(y)
        for n in seen:
            if n != r and not succ.get(n) and c02.is_table_owned(n) is True:
                pairs.add((r, n))
    return sorted(map(list, {(_RICH.sub("", a), _RICH.sub("", b)) for a, b in pairs}))


_RICH = __import__("re").compile(r"@[0-9a-f]{6}(?=[.|>])")


def chains(tier, rnd):
    """generated chain scripts with a model of what each table's columns are and where they come from"""
    out = []
    n = 260 if tier == "quick" else 4000
    for i in range(n):
        shape = rnd.choice(["linear2", "linear3", "linear4", "diamond", "fanin", "rewrite", "star_unknown", "publish_then_reload", "same_cte_name", "repeated_statement"])
        tables = {}  # table -> {col: set of (base table, base col)}
        stmts = []
        expect_star = []  # (statement index, target, source table, expected expanded columns)
        literal_middle = False

        def base_select(tgt, src, cols, how):
            nonlocal literal_middle
            items = []
            tables[tgt] = {}
            for c in cols:
                new = c if how == "same" else f"{c}_r{len(stmts)}"
                items.append(f"x.{c}" + (f" as {new}" if new != c else ""))
                tables[tgt][new] = {(src, c)}
            kw = rnd.choice(["create table {t} as", "insert into {t}", "create view {t} as", "create or replace table {t} as", "create or replace view {t} as"]).format(t=tgt)
            # an incremental loader also reads its own target in a predicate
            # (through a column the loader itself writes: reading any other column would say the table has that one too)
            first_new = cols[0] if how == "same" else f"{cols[0]}_r{len(stmts)}"
            own = f" where x.{cols[0]} not in (select {first_new} from {tgt})" if kw.startswith("insert") and rnd.random() < 0.3 else ""
            stmts.append(f"{kw} select {', '.join(items)} from {src} x{own}")

        def derive(tgt, src, mode):
            nonlocal literal_middle
            scols = list(tables[src])
            if rnd.random() < 0.3:
                # a bystander between the write and the read: its select-list scalar sub-query is analysed by a nested runner of its own
                stmts.append(f"insert into zz.audit{len(stmts)} select (select max(q) from zz.other) as mx, y.d1 from db.s2 y")
            if mode == "star":
                tables[tgt] = {c: set(tables[src][c]) for c in scols}
                stmts.append(f"insert into {tgt} select * from {src}")
                expect_star.append((len(stmts) - 1, tgt, src, scols))
            else:
                k = {"all": len(scols), "some": max(1, len(scols) // 2), "none": 0}[mode if mode in ("all", "some", "none") else "all"]
                use = scols[:k]
                tables[tgt] = {}
                items = []
                for c in use:
                    new = c if rnd.random() < 0.5 else f"{c}_n"
                    tables[tgt][new] = set(tables[src][c])
                    items.append(f"{c}" + (f" as {new}" if new != c else ""))
                if not items:
                    items = ["1 as lit_c"]
                    tables[tgt]["lit_c"] = set()
                stmts.append(f"insert into {tgt} select {', '.join(items)} from {src}")

        cols1 = rnd.sample(MD["db.s1"], rnd.randint(2, 3))
        if shape.startswith("linear"):
            base_select("db.m1", "db.s1", cols1, rnd.choice(["same", "renamed"]))
            prev = "db.m1"
            steps = int(shape[-1]) - 1
            for k in range(steps):
                tgt = f"db.m{k + 2}" if k < steps - 1 else "db.fin"
                # 'none' (nothing of the earlier table consumed: a literal-only select list) either ends the chain, or - rarely - is followed by
                # further statements: a table all of whose columns are literal-defined is the KF-34 shape
                mode = rnd.choice(["star", "all", "some", "none"] if k == steps - 1 else ["star", "all", "some", "some", "all", "star", "literal_middle"])
                if mode == "literal_middle":
                    literal_middle = True
                    mode = "none"
                derive(tgt, prev, mode)
                prev = tgt
        elif shape == "star_unknown":
            # a star copy of a table nobody knows the columns of, read again by star: the wildcard is all there is to chain
            tables["db.m1"] = {"*": {("ext.events", "*")}}
            stmts.append(rnd.choice(["insert into db.m1 select * from ext.events", "create table db.m1 as select * from ext.events"]))
            derive("db.fin", "db.m1", "star")
        elif shape == "repeated_statement":
            # the very same statement text twice, the table it reads by star rebuilt with other columns in between
            base_select("db.m1", "db.s1", cols1, "same")
            stmts[-1] = "create table db.m1 as" + stmts[-1].split(" as", 1)[1] if stmts[-1].startswith("create view") else stmts[-1]
            first_cols = list(tables["db.m1"])
            stmts.append("insert into db.fin select * from db.m1")
            expect_star.append((len(stmts) - 1, "db.fin", "db.m1", first_cols))
            fin = {c: set(tables["db.m1"][c]) for c in first_cols}
            stmts.append("create or replace table db.m1 as select y.d1, y.d2 from db.s2 y")
            tables["db.m1"] = {"d1": {("db.s2", "d1")}, "d2": {("db.s2", "d2")}}
            stmts.append("insert into db.fin select * from db.m1")
            expect_star.append((len(stmts) - 1, "db.fin", "db.m1", ["d1", "d2"]))
            for c in ("d1", "d2"):
                fin.setdefault(c, set()).update({("db.s2", c)})
            tables["db.fin"] = fin
        elif shape == "same_cte_name":
            # every statement calls its CTE (or derived table) 'base': the two are different relations with different columns
            c_a, c_b = cols1[0], cols1[1]
            form = rnd.choice(["cte", "derived"])
            if form == "cte":
                stmts.append(f"create table db.m1 as with base as (select x.{c_a}, x.{c_b} as amount from db.s1 x) select {c_a}, amount from base")
                stmts.append("insert into db.fin with base as (select y.d1 from db.s2 y) select amount, d1 from db.m1 join base on 1 = 1")
            else:
                stmts.append(f"create table db.m1 as select {c_a}, amount from (select x.{c_a}, x.{c_b} as amount from db.s1 x) base")
                stmts.append("insert into db.fin select amount, d1 from db.m1 join (select y.d1 from db.s2 y) base on 1 = 1")
            tables["db.m1"] = {c_a: {("db.s1", c_a)}, "amount": {("db.s1", c_b)}}
            tables["db.fin"] = {"amount": {("db.s1", c_b)}, "d1": {("db.s2", "d1")}}
        elif shape == "publish_then_reload":
            # a table is read by star while nothing is known about it yet, and (re)loaded by two statements afterwards
            tables["db.fin"] = {"*": {("db.m1", "*")}}
            stmts.append("insert into db.fin select * from db.m1")
            base_select("db.m1", "db.s1", cols1, "same")
            stmts.append(f"insert into db.m1 select y.{MD['db.s2'][0]} as {cols1[0]} from db.s2 y")
        elif shape == "diamond":
            base_select("db.m1", "db.s1", cols1, "same")
            derive("db.m2", "db.m1", rnd.choice(["star", "some"]))
            derive("db.m3", "db.m1", rnd.choice(["all", "some"]))
            a, b = list(tables["db.m2"])[0], list(tables["db.m3"])[0]
            tables["db.fin"] = {"fa": set(tables["db.m2"][a]), "fb": set(tables["db.m3"][b])}
            stmts.append(f"insert into db.fin select p.{a} as fa, q.{b} as fb from db.m2 p join db.m3 q on 1 = 1")
        elif shape == "fanin":
            base_select("db.m1", "db.s1", cols1, "renamed")
            base_select("db.m2", "db.s2", MD["db.s2"], "same")
            a, b = list(tables["db.m1"])[0], list(tables["db.m2"])[0]
            tables["db.fin"] = {a: set(tables["db.m1"][a]), b: set(tables["db.m2"][b])}
            # unqualified columns over a join of two tables created earlier in the script: each is defined by exactly one of them
            stmts.append(f"insert into db.fin select {a}, {b} from db.m1 join db.m2 on 1 = 1")
        else:  # rewrite of the same intermediate
            base_select("db.m1", "db.s1", cols1, "same")
            stmts.append(f"insert into db.m1 select y.{MD['db.s2'][0]} as {cols1[0]} from db.s2 y")
            tables["db.m1"][cols1[0]] = set(tables["db.m1"][cols1[0]]) | {("db.s2", MD["db.s2"][0])}
            derive("db.fin", "db.m1", rnd.choice(["star", "all"]))
        # expected end-to-end pairs of the last target (from base columns)
        last = "db.fin"
        pairs = sorted([f"{t}.{c}", f"{last}.{col}"] for col, srcs in tables.get(last, {}).items() for t, c in srcs)
        out.append({"sql": ";\n".join(stmts) + (";" if i % 2 else ""), "shape": shape, "expected_final_pairs": pairs, "expect_star": expect_star, "last": last,
                    "tables": {t: sorted(cs) for t, cs in tables.items()}, "literal_middle": literal_middle})
    # two statements each selecting an unqualified column of the same name over different joins (KF-09 shape), with and without metadata
    for i in range(6 if tier == "quick" else 40):
        a, b, c3 = rnd.sample(["db.s1", "db.s2", "db.u1", "db.u2", "db.u3"], 3)
        sql = f"insert into db.f1 select ku{i} from {a} join {b} on 1 = 1;\ninsert into db.f2 select ku{i} from {b} join {c3} on 1 = 1"
        out.append({"sql": sql, "shape": "same_unresolved_name_two_scopes", "expected_final_pairs": None, "expect_star": [], "last": "db.f2", "tables": {}, "literal_middle": False})
    return out


def run(tier):
    run_ = evidence.Run(PID, tier, rule=RULE)
    rnd = common.rng("c04")
    gen = chains(tier, rnd)
    cases, meta = [], []
    for g in gen:
        for prov in ("none", "dummy", "dummy_stale"):
            c = {"sql": g["sql"], "dialect": "ansi", "want": []}
            if prov == "dummy":
                c.update({"metadata": MD, "provider": "dummy"})
            if prov == "dummy_stale":
                # the provider's catalog still holds outdated definitions of the tables this script (re)builds
                # (only for a table the script creates with CREATE TABLE AS / CREATE VIEW: an INSERT without column list into a table the provider
                # knows is legitimately named by the catalog's columns, C13)
                # (nor for a table rebuilt as a star copy of unknown columns: what it then consists of is not decided by the script)
                if g["shape"] in ("same_unresolved_name_two_scopes", "rewrite", "star_unknown", "publish_then_reload", "same_cte_name", "repeated_statement") or "db.m1" not in g["tables"]:
                    continue
                c["sql"] = c["sql"].replace("insert into db.m1 select x.", "create table db.m1 as select x.", 1)
                c.update({"metadata": dict(MD, **{"db.m1": ["old1", "old2", "c1"]}), "provider": "dummy"})
            cases.append(c)
            meta.append(("chain", g, prov))
    for r in corpus.suite():
        if r["sql"].count(";") >= 1 and r["dialect"] != "non-validating":
            c = {"sql": r["sql"], "dialect": r["dialect"], "want": [], "metadata": r["metadata"]}
            cases.append(c)
            meta.append(("corpus", None, "dummy" if r["metadata"] else "none"))
    for k in ("compositions_compared", "star_expansions_checked", "session_registrations_observed", "chained_pairs_seen"):
        run_.need(k)
    with Pool() as pool:
        recs = pool.map("vlib.observe:run_case", cases, timeout=240)
    common.check_taps(run_, recs)
    shapes = {}
    for c, (kind, g, prov), (s, r) in zip(cases, meta, recs):
        b = {"sql": c["sql"], "dialect": c["dialect"], "metadata": c.get("metadata"), "provider": prov, "shape": g["shape"] if g else "corpus"}
        if not run_.pool_status(s, r, b):
            run_.case()
            continue
        if r["outcome"] != "ok":
            run_.case()
            if kind == "chain":
                run_.judge(b, "chain_script_raised", r["outcome"], kf_id=None)
            continue
        ps = r["per_statement"]
        consumed = any(any(e[0].rsplit(".", 1)[0] in p2.get("facts", {}).get("write", []) for e in p.get("facts", {}).get("col_edges", [])) for i, p in enumerate(ps) for p2 in ps[:i])
        run_.case(evidence.sha((c["sql"], prov, c["dialect"])), nontrivial=consumed,
                  sample={"script": c["sql"], "provider": prov, "pairs": r["column_pairs"][:6]} if consumed and len(run_.samples) < 5 and kind == "chain" else None)
        # (a) composition
        exp = compose(ps, c.get("metadata") if prov.startswith("dummy") else None)
        obs = sorted(map(list, {tuple(p) for p in r["column_pairs"]}))
        run_.observe("compositions_compared")
        run_.observe("chained_pairs_seen", sum(1 for p in r["column_paths"] if len(p) > 2))
        if exp != obs:
            run_.judge(b, "end_to_end_pairs_differ_from_composition",
                       {"missing": [p for p in exp if p not in obs][:10], "unexpected": [p for p in obs if p not in exp][:10]}, kf_id="KF-09" if g and g["shape"] == "same_unresolved_name_two_scopes" else classify(c, exp, obs))
            continue
        if kind != "chain":
            continue
        shapes[g["shape"]] = shapes.get(g["shape"], 0) + 1
        # (b) session knowledge (provider in use)
        if prov in ("dummy", "dummy_stale"):
            final = [p for p in obs if p[1].startswith(g["last"] + ".")]
            if g["expected_final_pairs"] is not None and final != g["expected_final_pairs"]:
                run_.judge(b, "chain_end_to_end_pairs_differ_from_model", {"expected": g["expected_final_pairs"], "observed": final, "tables": g["tables"]},
                           kf_id="KF-34" if g["literal_middle"] else None)
            sess = r["session"]
            for (idx, tgt, src, cols) in g["expect_star"]:
                run_.observe("star_expansions_checked")
                f = ps[idx]["facts"]
                got = sorted({e[1].rsplit(".", 1)[1] for e in f["col_edges"] if e[1].startswith(tgt + ".")})
                if got != sorted(cols):
                    run_.judge(b, "star_over_earlier_table_not_expanded_to_its_columns", {"statement": ps[idx]["text"], "expected_columns": sorted(cols), "observed_columns": got},
                               kf_id="KF-34" if g["literal_middle"] else None)
            regs = [e for e in sess if e["op"] == "register" and e["depth"] == 0]
            run_.observe("session_registrations_observed", len(regs))
            for i, p in enumerate(ps):
                w = p["facts"]["write"]
                mine = [e for e in regs if e["at_stmt"] == i + 1]
                # (a target whose only column is the unexpanded wildcard has nothing to register)
                if w and [e for e in p["facts"]["col_edges"] if not e[1].endswith(".*")] and not mine:
                    run_.judge(b, "no_session_registration_after_writing_statement", {"statement": p["text"], "write": w, "session": [(e["op"], e.get("table"), e["at_stmt"]) for e in sess][:12]},
                               kf_id="KF-34" if g["literal_middle"] else None)
                if not w and mine:
                    run_.judge(b, "session_registration_for_statement_that_writes_nothing", {"statement": p["text"]}, kf_id=None)
                for e in mine:
                    if w and e["table"] not in w:
                        run_.judge(b, "session_registration_under_wrong_table", {"statement": p["text"], "registered": e["table"], "write": w}, kf_id=None)
    run_.extra["chain_shapes"] = shapes
    run_.assumptions = ["column identity in the composition model is the printed owner (or sorted candidate owners) + name, not Python equality",
                        "the late-resolution rule is the only part of the fold the model imitates"]
    return run_.finish()


def classify(c, exp, obs):
    return None


def replay(path):
    rep = common.load_replay(path)
    c = rep["case"]
    case = {"sql": c["sql"], "dialect": c["dialect"], "want": []}
    if c.get("provider") == "dummy":
        case.update({"metadata": c["metadata"], "provider": "dummy"})
    with Pool(1) as pool:
        st, r = pool.call(0, "vlib.observe:run_case", case, timeout=240)
    exp = compose(r["per_statement"], c.get("metadata") if c.get("provider") == "dummy" else None)
    obs = sorted(map(list, {tuple(p) for p in r["column_pairs"]}))
    bad = exp != obs
    print("composition", "differs" if bad else "equal")
    if bad:
        print(f"VIOLATION property={PID} replay={path}")
    return 1 if bad else 0
