"""C05 - a script is analysed as exactly the sequence of its statements (split monitor + combination monitor)."""
import random

from vlib import corpus, evidence
from vlib.pool import Pool
from . import common

PID = "C05"
RULE = ("script = 1-5 pieces (corpus single statements that analyse alone, plus generated statements with ';' inside literals, quoted identifiers and comments) "
        "joined by separator variants (; ;; ;\\n, line/block comments containing ';', empty and comment-only statements, leading/trailing noise); tsql no-semicolon mode "
        "with newline/;/comment separators; nested block comments and literals ending in a backslash (tsql, postgres); statements() must equal the normalised pieces in order and the script's tables/edges/column pairs must equal "
        "SQLLineageHolder.of over the pieces analysed alone; non-trivial = distinct script that analysed without error")

SEPS = [";", ";\n", " ;\n", ";;", ";\n;\n", " ; -- c;x\n", ";\n/* a;b */\n", ";\n-- only a comment; really\n;\n", " ;\n/* block ; only */ ;\n", ";\n\n\n"]
PREFIX = ["", "", "\n", ";", "-- lead;in\n", "/* x; y */\n", " ;\n;"]
SUFFIX = ["", ";", ";;", "; -- tail;\n", ";\n/* t; */", "\n", " ; ;\n"]
TRICKY = {
    "ansi": ["insert into t1 select 'a;b' as c1 from t2", "insert into t3 select c1 /* in; side */ from t4", "select \"x;y\" from t5",
             "insert into t6 select c1 -- eol;comment\n from t7", "insert into t8 select ';' as a, ';;' as b, c from t9", "create table t10 as select '--;' as a from t11",
             "insert into t12 select '/* ; */' as a from t13", "insert into t1 select c1 from t2 where c2 = ';'"],
    "mysql": ["insert into t1 select 'a;b' as c1 from t2", "select `x;y` from t5", "insert into t6 select c1 # eol;comment\n from t7"],
    "tsql": ["insert into t1 select 'a;b' as c1 from t2", "select [x;y] from t5", "select c1 into t3 from t4", "update t1 set c1 = t2.c1 from t2 where t1.k = t2.k"],
}
TSQL_SEPS = ["\n", "\n\n", ";\n", " ;\n", "\n-- c;x\n", "\n/* a;b */\n", "\nGO\n", "\ngo\n\n", "\nGO\n-- next batch\n"]  # GO ends a batch


# where the dialect's own lexer and sqlparse's disagree: block comments nest under tsql / postgres, and a backslash does not escape the closing quote there
NESTED_SEPS = ["\n/* outer /* inner; */ ; still the outer comment */\n", "\n/* off; /* insert into old1 select * from old2; */ see ticket; */\n"]
BACKSLASH_PIECES = ["insert into t14 select 'C:\\tmp\\' as p, ';' as q, c1 from t15", "insert into t16 select c1 from t17 where c2 = 'a\\' and c3 = ';b'"]
TRAP_DIALECTS = ("postgres", "tsql")


def pieces_for(dialect):
    out = list(TRICKY.get(dialect, TRICKY["ansi"]))
    for c in corpus.suite():
        if c["dialect"] == dialect and not c["metadata"]:
            s = c["sql"].strip()
            while s.endswith(";"):
                s = s[:-1].rstrip()
            if s and ";" not in s and s not in out:
                out.append(s)
    return out


def workload(tier, rnd):
    n = 2700 if tier == "quick" else 20000
    dialects = ["ansi", "ansi", "ansi", "mysql", "sparksql", "postgres", "bigquery", "snowflake", "hive", "non-validating"]
    pcs = {d: pieces_for(d) for d in set(dialects) | {"tsql"}}
    jobs = []
    for i in range(n):
        d = rnd.choice(dialects)
        k = rnd.choice([1, 2, 2, 3, 3, 4, 5])
        pool = pcs[d]
        ps = [rnd.choice(pool[:len(TRICKY.get(d, TRICKY["ansi"]))] if rnd.random() < 0.3 else pool) for _ in range(k)]
        seps = [rnd.choice(PREFIX)] + [rnd.choice(SEPS) for _ in range(k - 1)] + [rnd.choice(SUFFIX)]
        jobs.append({"pieces": ps, "seps": seps, "dialect": d, "mode": "semicolon", "order": _order(len(jobs))})
    # lexer traps with semicolons (postgres, tsql): the statement splitter is sqlparse's, which knows neither nested comments nor quotes closed after a backslash
    for i in range(n // 45):
        d = TRAP_DIALECTS[i % 2]
        k = rnd.choice([2, 3])
        ps = [rnd.choice(pcs[d]) for _ in range(k)]
        seps = [""] + [rnd.choice(SEPS) for _ in range(k - 1)] + [rnd.choice(SUFFIX)]
        if i % 4 < 2:
            j = rnd.randrange(1, k)
            seps[j] = ";" + rnd.choice(NESTED_SEPS)
            trap = "nested_comment"
        else:
            ps[rnd.randrange(k)] = rnd.choice(BACKSLASH_PIECES)
            trap = "backslash_literal"
        jobs.append({"pieces": ps, "seps": seps, "dialect": d, "mode": "semicolon", "trap": trap, "order": _order(len(jobs))})
    # tsql without semicolons
    tp = pcs["tsql"]
    for i in range(n // 9):
        k = rnd.choice([1, 2, 3, 4])
        ps = [rnd.choice(tp) for _ in range(k)]
        seps = [rnd.choice(["", "\n", "-- lead\n", "GO\n"])] + [rnd.choice(TSQL_SEPS) for _ in range(k - 1)] + [rnd.choice(["", "\n", ";", "\n-- tail", "\nGO", "\nGO\n"])]
        trap = None
        if i % 5 == 0 and k > 1:
            seps[rnd.randrange(1, k)] = rnd.choice(NESTED_SEPS)
            trap = "nested_comment"
        elif i % 5 == 1:
            ps[rnd.randrange(k)] = rnd.choice(BACKSLASH_PIECES)
            trap = "backslash_literal"
        jobs.append({"pieces": ps, "seps": seps, "dialect": "tsql", "config": {"TSQL_NO_SEMICOLON": True}, "mode": "tsql_no_semicolon", "order": _order(len(jobs)), **({"trap": trap} if trap else {})})
    return jobs


def trap_kf(job, res):
    """KF-31b: with semicolons the script is cut by sqlparse's lexer, which does not nest block comments and lets a backslash escape the closing quote;
    under a dialect whose own lexer reads the script differently (sqlfluff accepts the whole text) a semicolon inside such a comment / after such a
    literal splits. Only this mode, these two mechanisms and 'cut in the wrong place' (invalid syntax or another statement list) are recognised."""
    if job.get("trap") and job["mode"] == "semicolon" and job["dialect"] in TRAP_DIALECTS:
        if res["outcome"] == "InvalidSyntaxException" and res.get("batch_accepted_by_sqlfluff") is True:
            return "KF-31b"
        if res["outcome"] == "ok" and len(res.get("statements") or []) > len(job["pieces"]):
            return "KF-31b"
    return None


def _order(i):
    """the statement list is asked for first, last, or between the lineage accessors"""
    from vlib.observe import ACCESSORS
    rest = [a for a in ACCESSORS if a != "statements"]
    return [["statements"] + rest, rest + ["statements"], rest[:2] + ["statements"] + rest[2:]][i % 3]


def run(tier):
    run_ = evidence.Run(PID, tier, rule=RULE)
    rnd = common.rng("c05")
    jobs = workload(tier, rnd)
    for k in ("statement_lists_compared", "combinations_compared", "tsql_mode_scripts", "lexer_trap_scripts_tsql_no_semicolon"):
        run_.need(k)
    with Pool() as pool:
        res = pool.map("vlib.scripts:run_script", jobs, timeout=300)
    skipped = 0
    modes = {}
    for j, (st, r) in zip(jobs, res):
        b = {"pieces": j["pieces"], "seps": j["seps"], "dialect": j["dialect"], "config": j.get("config"), "order": j.get("order"), **({"trap": j["trap"]} if j.get("trap") else {})}
        if not run_.pool_status(st, r, b):
            run_.case()
            continue
        if "skipped" in r and r.get("pieces_accepted_by_sqlfluff") and set(r["skipped_pieces"]) <= set(BACKSLASH_PIECES):
            # a lexer-trap statement the dialect's parser accepts is not analysable even alone
            run_.case(evidence.sha((j["pieces"], j["dialect"], j.get("config"))), nontrivial=True)
            run_.judge(b, "statement_accepted_by_the_dialect_is_not_analysed_as_one_statement", {"alone": r["skipped"]},
                       kf_id="KF-31b" if j["mode"] == "semicolon" and j["dialect"] in TRAP_DIALECTS and j.get("trap") == "backslash_literal" else None)
            continue
        if "skipped" in r:
            skipped += 1
            run_.case()
            continue
        ok = r["outcome"] == "ok"
        run_.case(evidence.sha((r["script"], j["dialect"], j.get("config"))), nontrivial=ok,
                  sample={"script": r["script"], "dialect": j["dialect"], "statements": r.get("statements")} if ok and len(run_.samples) < 5 and len(j["pieces"]) > 2 else None)
        if not ok and r.get("batch_accepted_by_sqlfluff") is False:
            # tsql without semicolons: sqlfluff itself cannot parse this batch although each piece parses alone - not accepted, not judged
            run_.counters["tsql_batch_rejected_by_sqlfluff_itself"] += 1
            continue
        if not ok:
            # every piece analyses alone, so the assembled script must analyse too
            run_.judge(dict(b, script=r["script"]), "script_raises_though_pieces_do_not", {"outcome": r["outcome"], "message": r.get("message")}, kf_id=trap_kf(j, r))
            continue
        if j.get("trap"):
            run_.observe("lexer_trap_scripts_" + j["mode"])
        modes[j["mode"]] = modes.get(j["mode"], 0) + 1
        if j["mode"] == "tsql_no_semicolon":
            run_.observe("tsql_mode_scripts")
        run_.observe("statement_lists_compared")
        if r["statements"] != r["expected_statements"] or r["n_analyzed"] != len(j["pieces"]):
            run_.judge(dict(b, script=r["script"]), "statements_differ", {"reported": r["statements"], "expected": r["expected_statements"], "analyzed": r["n_analyzed"]}, kf_id=trap_kf(j, r))
            continue
        run_.observe("combinations_compared")
        if r["combined"] != r["script_result"]:
            diff = [k for k in r["combined"] if r["combined"][k] != r["script_result"][k]]
            run_.judge(dict(b, script=r["script"]), "script_differs_from_combination", {"fields": diff, "script": {k: r["script_result"][k] for k in diff},
                                                                                       "combination": {k: r["combined"][k] for k in diff}}, kf_id=None)
    run_.extra.update({"skipped_pieces_not_analysable_alone": skipped, "modes": modes})
    run_.assumptions = ["the comment/whitespace normaliser (own lexer for --, #, /* */ and quotes) is applied to both sides",
                        "the combination reference uses holders captured by the statement tap when each piece is analysed alone in a fresh runner"]
    return run_.finish()


def replay(path):
    rep = common.load_replay(path)
    c = rep["case"]
    with Pool(1) as pool:
        st, r = pool.call(0, "vlib.scripts:run_script", {"pieces": c["pieces"], "seps": c["seps"], "dialect": c["dialect"], "config": c.get("config"), "order": c.get("order"), "trap": c.get("trap")}, timeout=300)
    print(st, r)
    bad = st == "ok" and "skipped" not in r and (r["outcome"] != "ok" or r["statements"] != r["expected_statements"] or r["combined"] != r["script_result"])
    if bad:
        print(f"VIOLATION property={PID} replay={path}")
    return 1 if bad else 0
