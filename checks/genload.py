"""Generated workloads (the generators of C01-C05) shared by the invariant/metamorphic checks C06, C07, C11, C18."""
import random

from vlib import sqlgen
from . import common


def _scripts(n, seed, depth=(1, 2, 2, 3), multi=True, kinds=None, schemas=("sa", "sb")):
    g = sqlgen.Gen(random.Random(seed), schemas=schemas, alias_p=0.5, scalar_p=0.12)
    rnd = random.Random(seed + 1)
    kinds = kinds or ["insert", "insert", "insert_cols", "ctas", "create_view", "bare", "update_from", "merge", "with_insert", "insert_values", "create_like", "delete"]
    out = []
    for i in range(n):
        k = rnd.choice([1, 1, 2, 3]) if multi else 1
        stmts = [g.statement(rnd.choice(depth), kinds=kinds) for _ in range(k)]
        if multi and k > 1 and rnd.random() < 0.5:
            # make a later statement read an earlier target so that chains and intermediate tables occur
            t = stmts[0].target
            if t is not None:
                stmts.append(sqlgen.Stmt("insert", g.target(), sqlgen.Select([sqlgen.Item(None, is_star=True)], [sqlgen.Group(sqlgen.Base(t.name, t.schema))])))
            if rnd.random() < 0.3 and t is not None:
                new = g.target()
                stmts.append(sqlgen.Stmt("rename", sqlgen.Base(t.name, t.schema), None, None, {"to": new}))
                if rnd.random() < 0.6:
                    # the renamed table is used again under its new name: by star, and by the first named column its loader gave it
                    q0 = stmts[0].query
                    while q0 is not None and hasattr(q0, "body"):
                        q0 = q0.body
                    if isinstance(q0, sqlgen.SetOp):
                        q0 = q0.branches[0]
                    named = [it.out_name() for it in getattr(q0, "items", []) if not it.is_star and it.out_name()] if stmts[0].kind in ("insert", "ctas", "create_view") else []
                    items = [sqlgen.Item(sqlgen.col(named[0]))] if named and rnd.random() < 0.7 else [sqlgen.Item(None, is_star=True)]
                    stmts.append(sqlgen.Stmt("insert", g.target(), sqlgen.Select(items, [sqlgen.Group(sqlgen.Base(new.name, new.schema))])))
        parts = [sqlgen.render(s) for s in stmts]
        if multi and len(stmts) > 1 and stmts[0].target is not None and rnd.random() < 0.35:
            # a table of the script is also touched by statements that give it a role tag of their own: plain DDL / INSERT VALUES
            # (written, nothing read) or a bare SELECT (read, nothing written) - before, between or after the statements that wire it
            t0 = stmts[0].target
            tn0 = (t0.schema + "." if t0.schema else "") + t0.name
            extra = rnd.choice([f"create table {tn0} (c_1 int, c_2 int)", f"insert into {tn0} values (1, 'a')", f"select c_1 from {tn0}", f"select * from {tn0} where c_1 > 1"])
            parts.insert(rnd.randrange(len(parts) + 1), extra)
        if multi and rnd.random() < 0.3:
            # DROP of: a table whose only lineage is an in-place UPDATE (no dataset read), an earlier target, an earlier source, a stranger
            which = rnd.choice(["inplace", "inplace", "target", "source", "stranger"])
            if which == "inplace":
                tn = f"sa.tb_ip{i}" if rnd.random() < 0.5 else f"tb_ip{i}"
                at = rnd.randrange(len(parts) + 1)
                parts.insert(at, f"update {tn} set c_1 = c_2" + (", c_3 = c_4" if rnd.random() < 0.4 else ""))
                parts.insert(rnd.randrange(at + 1, len(parts) + 1), f"drop table {tn}")
            elif which == "target" and stmts[0].target is not None:
                t0 = stmts[0].target
                parts.append("drop table " + (t0.schema + "." if t0.schema else "") + t0.name)
            elif which == "source":
                reads = sorted(stmts[0].reads()) if hasattr(stmts[0], "reads") else []
                if reads:
                    parts.append("drop table " + reads[0].replace("<default>.", ""))
            else:
                parts.append(f"drop table tb_never{i}")
        text = ";\n".join(parts)
        tags = set()
        for s in stmts:
            tags |= s.tags()
        out.append(_Script(text, tags))
    return out


class _Script(str):
    """script text that remembers the AST tags of its statements (used to keep dialects whose grammar lacks a join form away from it)"""

    def __new__(cls, text, tags):
        o = super().__new__(cls, text)
        o.tags = tags
        return o


def _dialect_for(sql, d):
    # where the dialect's grammar does not know NATURAL / USING it reads the keyword as a table alias: the text then means something else
    return d if common.is_core_for(d, getattr(sql, "tags", ())) else "ansi"


def cases_for_invariants(tier):
    n = 700 if tier == "quick" else 12000
    seed = common.env.seed() * 7 + 101
    out = []
    for i, sql in enumerate(_scripts(n, seed)):
        d = "ansi" if i % 4 else ["mysql", "postgres", "sparksql", "snowflake", "bigquery", "non-validating"][i // 4 % 6]
        out.append({"sql": str(sql), "dialect": _dialect_for(sql, d), "metadata": None, "silent": False, "want": ["inv"], "src": "generated"})
    # column graphs with cycles (tables that feed each other), with and without an exit to an ordinary target
    cyc = [
        "insert into ta select k from tc; insert into tb select k from ta; insert into tc select k from tb; insert into out_t select k from tb",
        "insert into ta select k from tb; insert into tb select k from ta; insert into out_t select k from ta",
        "insert into ta select k, v from tb; insert into tb select k, w as v from ta; insert into out_t select k, v from tb; insert into out2 select v from out_t",
        "insert into ta select x.k from tb x join src s on x.k = s.k; insert into tb select k from ta; insert into out_t select k from tb",
        "insert into ta select k from ta; insert into out_t select k from ta",
        "insert into ta select k from tb; insert into tb select k from tc; insert into tc select k from ta",
        "create table m1 as select s.a from s; insert into m2 select a from m1; insert into m1 select a from m2; insert into fin select a from m2; insert into fin2 select a from m1",
        # a cycle without upstream of its own whose component also holds an ordinary source / a second cycle joining downstream
        "insert into ta select k from tb; insert into tb select k from ta; insert into rpt select k from ta; insert into rpt select k from ref_t",
        "insert into ta select k from tb; insert into tb select k from ta; insert into tc select k from td; insert into td select k from tc; insert into rpt select ta.k, tc.k as k2 from ta join tc on ta.k = tc.k",
        "insert into ta select k from tb; insert into tb select k from ta; insert into rpt select k from ta; insert into rpt2 select r.k, x.v from rpt r join ref_t x on r.k = x.k; insert into ref_t select k, v from stage_t",
        "insert into ta select k from ta; insert into tb select k from tb; insert into rpt select k from ta union all select k from tb union all select k from ref_t",
    ]
    for sql in cyc:
        for d in ("ansi", "non-validating", "mysql"):
            out.append({"sql": sql, "dialect": d, "metadata": None, "silent": False, "want": ["inv"], "src": "generated:cycle"})
    # file paths: one location spelled several ways across the statements of a script (every spelling is a dataset of its own)
    prnd = random.Random(seed + 9)
    for i in range(24 if tier == "quick" else 300):
        base = prnd.choice(["hdfs://nn/data/daily", "s3://bucket/k/part", "/mnt/lake/zone", "gs://b/x"])
        sp = prnd.sample([base, base + "/", base.upper(), base + "//", base.replace("/data", "/./data")], 3)
        fam = prnd.choice(["overwrite_dir", "overwrite_dir", "copy", "mixed"])
        if fam == "overwrite_dir":
            d = prnd.choice(["sparksql", "hive", "non-validating"])
            stmts = [f"insert overwrite directory '{p}' select c_1 from tb_p{i}_{k}" for k, p in enumerate(sp)]
        elif fam == "copy":
            d = prnd.choice(["redshift", "snowflake"])
            stmts = [(f"copy tb_p{i}_{k} from '{p}' iam_role 'r'" if d == "redshift" else f"copy into tb_p{i}_{k} from '{p}'") for k, p in enumerate(sp)]
        else:
            d = "sparksql"
            stmts = [f"insert overwrite directory '{sp[0]}' select c_1 from tb_p{i}_0", f"insert into tb_p{i}_1 select * from parquet.`{sp[1]}`",
                     f"insert overwrite directory '{sp[2]}' select c_2 from tb_p{i}_1"]
        prnd.shuffle(stmts)
        out.append({"sql": ";\n".join(stmts), "dialect": d, "metadata": None, "silent": False, "want": ["inv"], "src": "generated:paths"})
    # UPDATE in its dialect-specific forms: several tables joined before SET (mysql), SET targets qualified by the alias of either table,
    # the alias-as-target idiom (tsql), targets qualified by the table's own name
    for i in range(16 if tier == "quick" else 160):
        forms = [
            ("mysql", f"update tb_o{i} o join tb_c{i} c on o.k = c.k set o.region = c.region, c.last_region = c.region"),
            ("mysql", f"update tb_o{i} o join tb_c{i} c on o.k = c.k join sa.tb_d{i} d on d.k = c.k set o.a = d.a, d.b = o.b where c.x > 1"),
            ("mariadb", f"update tb_o{i} o inner join tb_c{i} c on o.k = c.k set c.total = o.amount"),
            ("tsql", f"update x set x.c1 = y.c2 from tb_t{i} x join tb_s{i} y on x.k = y.k"),
            ("tsql", f"update tb_t{i} set tb_t{i}.c1 = y.c2, c3 = y.c4 from tb_s{i} y"),
            ("postgres", f"update tb_t{i} set c1 = s.c1 from tb_s{i} s where tb_t{i}.k = s.k"),
            ("ansi", f"update sa.tb_t{i} set c1 = s.c1, c2 = u.c2 from tb_s{i} s, sb.tb_u{i} u"),
            ("non-validating", f"update tb_o{i} o join tb_c{i} c on o.k = c.k set o.region = c.region, c.last_region = c.region"),
        ]
        d, sql = forms[i % len(forms)]
        follow = prnd.choice(["", f"; insert into tb_z{i} select * from tb_t{i}", f"; insert into tb_z{i} select region, last_region from tb_o{i}", f"; select * from tb_c{i}"])
        out.append({"sql": sql + follow, "dialect": d, "metadata": None, "silent": False, "want": ["inv"], "src": "generated:update_forms"})
    # tables written from no table at all (a CTE / derived table of constants, a table function), then read - in part - by later statements
    for i in range(16 if tier == "quick" else 160):
        forms = [
            ("ansi", f"insert into tb_w{i} with params as (select 1 as run_id, 'x' as tag) select run_id, tag from params"),
            ("ansi", f"create table tb_w{i} as select d.run_id, d.tag from (select 1 as run_id, 'x' as tag) d"),
            ("bigquery", f"insert into tb_w{i} select run_id, 'x' as tag from unnest([1, 2, 3]) as run_id"),
            ("postgres", f"insert into tb_w{i} select g.run_id, 'x' as tag from generate_series(1, 3) as g(run_id)"),
            ("non-validating", f"insert into tb_w{i} with params as (select 1 as run_id, 'x' as tag) select run_id, tag from params"),
            ("sparksql", f"insert into tb_w{i} select d.run_id, d.tag from (select 1 as run_id, 'x' as tag) d"),
        ]
        d, sql = forms[i % len(forms)]
        follow = prnd.choice([f"; insert into tb_v{i} select run_id from tb_w{i}", f"; insert into tb_v{i} select * from tb_w{i}; insert into tb_u{i} select tag from tb_v{i}",
                              f"; create table tb_v{i} as select w.run_id, s.c from tb_w{i} w join tb_s{i} s on w.run_id = s.k", ""])
        out.append({"sql": sql + follow, "dialect": d, "metadata": None, "silent": False, "want": ["inv"], "src": "generated:constant_sources"})
    # MERGE in more of its forms: aliased target, several WHEN arms, DELETE arm, INSERT without column list, sub-query / CTE sources
    for i in range(16 if tier == "quick" else 160):
        forms = [
            ("ansi", f"merge into tb_m{i} t using tb_s{i} s on t.k = s.k when matched and s.f > 1 then update set t.a = s.a, t.b = s.b when matched then delete when not matched then insert (k, a) values (s.k, s.a)"),
            ("snowflake", f"merge into sa.tb_m{i} as t using (select k, max(a) as a from tb_s{i} group by k) as s on t.k = s.k when matched then update set a = s.a when not matched then insert (k, a) values (s.k, s.a)"),
            ("bigquery", f"merge into tb_m{i} t using tb_s{i} s on t.k = s.k when not matched by source then delete when not matched then insert row"),
            ("tsql", f"merge tb_m{i} as t using tb_s{i} as s on t.k = s.k when matched then update set t.a = s.a when not matched by target then insert (k, a) values (s.k, s.a);"),
            ("postgres", f"with s as (select k, a from tb_s{i} where a > 1) merge into tb_m{i} t using s on t.k = s.k when matched then update set a = s.a when not matched then insert (k, a) values (s.k, s.a)"),
            ("sparksql", f"merge into tb_m{i} t using tb_s{i} s on t.k = s.k when matched then update set * when not matched then insert *"),
            ("ansi", f"merge into tb_m{i} using tb_s{i} on tb_m{i}.k = tb_s{i}.k when matched then update set a = tb_s{i}.a, b = tb_s{i}.b"),
            ("non-validating", f"merge into tb_m{i} t using (select k, a from tb_s{i} x join tb_r{i} y on x.k = y.k) s on t.k = s.k when matched then update set t.a = s.a when not matched then insert (k, a) values (s.k, s.a)"),
        ]
        d, sql = forms[i % len(forms)]
        follow = prnd.choice(["", f"; insert into tb_z{i} select * from tb_m{i}", f"; insert into tb_z{i} select a, b from tb_m{i}", f"; select * from tb_s{i}"])
        out.append({"sql": sql.rstrip(";") + follow if follow else sql, "dialect": d, "metadata": None, "silent": False, "want": ["inv"], "src": "generated:merge_forms"})
    # metadata variants: expansion and late resolution paths
    md = {"sa.tb_k1": ["c_1", "c_2"], "sb.tb_k2": ["c_1", "k_1"], "zz.o": ["q"]}
    for i, sql in enumerate(_scripts(n // 6, seed + 5)):
        out.append({"sql": sql, "dialect": "ansi", "metadata": md, "silent": False, "want": ["inv"], "src": "generated+metadata"})
    return out


def cases_for_determinism(tier, rnd):
    n = 160 if tier == "quick" else 3000
    out = []
    for i, sql in enumerate(_scripts(n, common.env.seed() * 11 + 303)):
        md = None
        if i % 3 == 0:
            md = {"sa.tb_k%d" % rnd.randint(1, 40): ["c_1", "k_1", "cu_1"], "sb.tb_k%d" % rnd.randint(1, 40): ["c_1", "k_1", "cu_1"], "zz.o": ["q"]}
        out.append({"sql": sql, "dialect": "ansi" if i % 5 else "non-validating", "metadata": md, "silent": False, "want": [], "src": "generated"})
    return out


def cases_for_rewrites(tier, rnd):
    n = 150 if tier == "quick" else 2500
    out = []
    for i, sql in enumerate(_scripts(n, common.env.seed() * 13 + 505, multi=False, schemas=("sa", "dbx.scy", "sb"))):
        d = "ansi" if i % 3 else ["mysql", "postgres", "sparksql", "snowflake", "bigquery", "tsql"][i // 3 % 6]
        out.append({"sql": str(sql), "dialect": _dialect_for(sql, d), "metadata": None, "src": "generated"})
    # MERGE whose UPDATE SET reads the matched target row itself (right-hand side qualified by the target's alias or name), beside source columns
    for i in range(8 if tier == "quick" else 60):
        al = ["", " t", " as tg%d" % i][i % 3]
        q = "tgt_m%d" % i if not al else al.split()[-1]
        d = ["ansi", "snowflake", "postgres", "bigquery"][i % 4]
        out.append({"sql": f"merge into sa.tgt_m{i}{al} using src_m{i} s on {q}.k_1 = s.k_1 when matched then update set prev_v = {q}.v, amount = s.amount"
                           + (f" when not matched then insert (k_1, v) values (s.k_1, s.v)" if i % 2 else ""), "dialect": d, "metadata": None, "src": "generated:merge_self"})
    # multi-statement scripts (statement boundaries are token boundaries too)
    m = 0
    for i, sql in enumerate(_scripts(n // 2, common.env.seed() * 13 + 506, depth=(1, 1, 2), multi=True)):
        if sql.count(";\n") < 1:
            continue
        d = "ansi" if m % 3 else ["mysql", "postgres", "sparksql", "snowflake", "bigquery", "non-validating"][m // 3 % 6]
        m += 1
        out.append({"sql": str(sql) + (";" if m % 2 else ""), "dialect": _dialect_for(sql, d), "metadata": None, "src": "generated:script"})
    return out
