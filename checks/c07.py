"""C07 - lineage is invariant under layout, comments and letter case (metamorphic monitor)."""
from vlib import corpus, evidence, kf
from vlib.pool import Pool
from . import common

PID = "C07"
RULE = ("case = corpus/TPC-DS/generated statement x rewrite (whitespace gaps -> newlines/tabs, -> block comments with ; and quotes, -> line comments; comment insertion "
        "after ',' '(' and before ')'; upper/lower/swap case of keywords and unquoted identifiers; quoting of lower-case identifiers; trailing semicolons; combinations); "
        "thorough additionally applies each rewrite at every single eligible boundary; tables, table edges and named column pairs must be equal "
        "(expression-named columns modulo layout/case); non-trivial = distinct (statement, rewritten text) where both analyses returned")

QUICK_SPECS = [
    {"kind": "ws"}, {"kind": "block"}, {"kind": "line"}, {"kind": "ins_block"}, {"kind": "ins_line", "p": 0.3}, {"kind": "upper"}, {"kind": "swap"}, {"kind": "lower"}, {"kind": "mixed"}, [{"kind": "mixed"}, {"kind": "ws"}],
    {"kind": "quote", "p": 1.0}, {"kind": "quote", "p": 0.4}, {"kind": "semicolons"},
    [{"kind": "ws"}, {"kind": "upper"}], [{"kind": "block", "p": 0.5}, {"kind": "swap"}, {"kind": "semicolons"}], [{"kind": "line", "p": 0.5}, {"kind": "quote", "p": 0.5}],
    [{"kind": "ins_block"}, {"kind": "ws"}, {"kind": "lower"}],
    {"kind": "hash", "p": 0.5}, {"kind": "ins_hash", "p": 0.3}, {"kind": "hash_glued", "p": 0.3},  # '#' line comments, for dialects whose lexer knows them; no other comment style beside them
]


def base_cases(tier, rnd):
    cases = []
    seen = set()
    for r in corpus.all_cases():
        k = (r["sql"], r["dialect"])
        if k in seen:
            continue
        seen.add(k)
        cases.append({"sql": r["sql"], "dialect": r["dialect"], "metadata": r["metadata"], "src": r["src"]})
    try:
        from . import genload
        cases += genload.cases_for_rewrites(tier, rnd)
    except ImportError:
        pass
    # chains whose later statements depend on what earlier ones taught the session (provider in use): what is learnt must not depend on layout
    from . import c04
    for g in c04.chains("quick", common.rng("c07-chains"))[: (60 if tier == "quick" else 260)]:
        cases.append({"sql": g["sql"], "dialect": "ansi", "metadata": c04.MD, "src": "chain"})
    return cases


def run(tier):
    run_ = evidence.Run(PID, tier, rule=RULE)
    rnd = common.rng("c07")
    cases = base_cases(tier, rnd)
    jobs = []
    if tier == "quick":
        rnd.shuffle(cases)
        scripts = [c for c in cases if c["src"] == "generated:script"][:40] + [c for c in cases if c["src"] == "chain"][:40]
        for i, c in enumerate([c for c in cases if c["src"] not in ("generated:script", "chain")][:400]):
            specs = rnd.sample(QUICK_SPECS, 7)
            jobs.append(dict(c, specs=specs, seed=common.env.seed() * 100000 + i))
        for i, c in enumerate(scripts):
            specs = [{"kind": "semicolons"}, [{"kind": "semicolons", "p": 0.5}, {"kind": "ws"}]] + rnd.sample(QUICK_SPECS, 3)
            jobs.append(dict(c, specs=specs, seed=common.env.seed() * 100000 + 5000 + i))
    else:
        for i, c in enumerate(cases):
            jobs.append(dict(c, specs=QUICK_SPECS, seed=common.env.seed() * 100000 + i))
    for k in ("rewrites_compared",):
        run_.need(k)
    with Pool() as pool:
        if tier == "thorough":
            # every single boundary individually for a seeded subset of statements
            sub = [c for c in cases if len(c["sql"]) < 700]
            rnd.shuffle(sub)
            sub = sub[:300]
            cres = pool.map("vlib.rewrite:counts", [{"sql": c["sql"], "dialect": c["dialect"]} for c in sub], timeout=120)
            for c, (st, n) in zip(sub, cres):
                if st != "ok" or not n:
                    continue
                specs = []
                for at in range(n["gaps"]):
                    specs += [{"kind": "block", "at": at}, {"kind": "line", "at": at}]
                for at in range(n["ins"]):
                    specs += [{"kind": "ins_block", "at": at}]
                for at in range(n["words"]):
                    specs += [{"kind": "swap", "at": at}, {"kind": "mixed", "at": at}]
                for at in range(n["idents"]):
                    specs += [{"kind": "quote", "at": at}]
                for k0 in range(0, len(specs), 40):
                    jobs.append(dict(c, specs=specs[k0:k0 + 40], seed=1, single=True))
        res = pool.map("vlib.rewrite:run_pair", jobs, timeout=900)
    by_kind = {}
    rejected = {}
    skipped = 0
    for j, (st, r) in zip(jobs, res):
        b = common.brief(j)
        if not run_.pool_status(st, r, b):
            run_.case()
            continue
        if "skipped" in r or r["orig"]["outcome"] != "ok":
            skipped += 1
            run_.case()
            continue
        for item in r["rewrites"]:
            kinds = "+".join(s["kind"] for s in item["spec"])
            v = item["view"]
            both = v["outcome"] == "ok"
            run_.case(evidence.sha((j["sql"], j["dialect"], item["text"])), nontrivial=both,
                      sample={"original": j["sql"], "dialect": j["dialect"], "spec": item["spec"], "rewritten": item["text"]} if both and len(run_.samples) < 5 and len(j["sql"]) < 200 else None)
            case = dict(b, spec=item["spec"], rewritten=item["text"])
            if not both:
                if item.get("sqlfluff_accepts_rewrite") is False or item.get("relex_failed"):
                    # the dialect's own parser rejects the rewritten text: not an accepted script, not a lineage change
                    rejected[kinds] = rejected.get(kinds, 0) + 1
                    continue
                if j["dialect"] == "non-validating" and v["outcome"] == "InvalidSyntaxException":
                    rejected["non-validating:" + kinds] = rejected.get("non-validating:" + kinds, 0) + 1
                    continue
                run_.judge(case, "rewrite_raises:" + kinds, {"outcome": v["outcome"]}, kf_id=kf.c07(case, None, r["orig"], v))
                continue
            run_.observe("rewrites_compared")
            by_kind[kinds] = by_kind.get(kinds, 0) + 1
            o = dict(r["orig"])
            if any(s["kind"] == "semicolons" for s in item["spec"]):
                pass
            diff = [k for k in o if k != "n_statements" and o[k] != v[k]]
            if diff:
                det = {"fields": diff, "original": {k: o[k] for k in diff}, "rewritten": {k: v[k] for k in diff}}
                run_.judge(case, "lineage_changed:" + kinds, det, kf_id=kf.c07(case, diff, o, v))
            elif o["n_statements"] != v["n_statements"]:
                run_.judge(case, "statement_count_changed:" + kinds, {"original": o["n_statements"], "rewritten": v["n_statements"]}, kf_id=None)
    run_.extra.update({"compared_by_rewrite_kind": by_kind, "rewrites_rejected_by_the_dialect_itself": rejected, "statements_skipped": skipped})
    run_.assumptions = ["sqlfluff's lexer/parser for the dialect decides token boundaries and which tokens are unquoted identifiers",
                        "a rewritten text that sqlfluff itself rejects is counted, not judged"]
    return run_.finish()


def replay(path):
    rep = common.load_replay(path)
    c = rep["case"]
    with Pool(1) as pool:
        st, r = pool.call(0, "vlib.rewrite:run_pair", {"sql": c["sql"], "dialect": c["dialect"], "metadata": c.get("metadata"), "specs": [], "seed": 0}, timeout=300)
        from vlib import rewrite  # noqa
        st2, r2 = pool.call(0, "vlib.observe:run_case", {"sql": c["rewritten"], "dialect": c["dialect"], "metadata": c.get("metadata"), "want": []}, timeout=300)
    import vlib.rewrite as rw
    v = rw.view(r2) if st2 == "ok" else None
    o = r["orig"] if st == "ok" and "orig" in r else None
    print(o, v)
    bad = o and v and any(o[k] != v.get(k) for k in o if k != "n_statements")
    if bad:
        print(f"VIOLATION property={PID} replay={path}")
    return 1 if bad else 0
