"""C11 - analysis is deterministic: differential monitor across processes started with different PYTHONHASHSEED,
repetitions within one process, and accessor-order/multiplicity permutations."""
import json

from vlib import evidence, kf
from vlib.pool import Pool, NCPU
from . import common

PID = "C11"
PUBLIC = ["outcome_type", "statements", "source", "target", "intermediate", "column_paths", "cyto_table", "cyto_column", "summary",
          "column_paths_incl_subquery", "column_paths_no_subquery_columns"]
RULE = ("case = (script, dialect, metadata) from the harvested corpus, TPC-DS and order-sensitive generated scripts; each is run in worker processes "
        "started with different PYTHONHASHSEED, twice in the same process, three times through one reused provider object, and with accessors called in a seeded permutation with repeats; "
        "the canonical public records (anonymous subquery names and export edge ids neutralised) must be equal; non-trivial = analysis returned a result in the reference process")

EXTRAS = [
    # shapes whose answer could depend on set iteration order
    {"sql": "insert into t select * from db.a join db.b on a.k = b.k", "dialect": "ansi", "metadata": {"db.a": ["k", "x", "y"], "db.b": ["k", "z"]}},
    {"sql": "insert into t select x, y, z from db.a, db.b, db.c", "dialect": "ansi", "metadata": None},
    {"sql": "insert into t select k from a join b on a.id = b.id join c on c.id = b.id", "dialect": "ansi", "metadata": None},
    {"sql": "rename table a to b, c to d", "dialect": "mysql", "metadata": None},
    {"sql": "insert into a select * from x; rename table a to b, b to c", "dialect": "mysql", "metadata": None},
    {"sql": "insert into t select (select max(v) from u), (select max(v) from u) from w", "dialect": "ansi", "metadata": None},
    {"sql": "insert into t select a.c1, b.c1, c.c1 from ta a, tb b, tc c; insert into u select * from t; insert into v select * from u", "dialect": "ansi", "metadata": None},
    {"sql": "create table t as select * from s1.a union all select * from s2.a union all select * from s3.a", "dialect": "ansi", "metadata": {"s1.a": ["p", "q"], "s2.a": ["p", "q"], "s3.a": ["q", "p"]}},
    {"sql": "with c1 as (select * from a), c2 as (select * from b), c3 as (select * from c1 join c2 on c1.k = c2.k) insert into t select * from c3", "dialect": "ansi", "metadata": None},
    {"sql": "merge into t using (select k, v from s1 union select k, v from s2) q on t.k = q.k when matched then update set t.v = q.v when not matched then insert (k, v) values (q.k, q.v)", "dialect": "ansi", "metadata": None},
    {"sql": "insert into t select k from db.a join db.b on a.i = b.i", "dialect": "ansi", "metadata": {"db.a": ["k", "i"], "db.b": ["k", "i"]}},
    {"sql": "update t set a = s.a, b = s.b, c = u.c from s, u where t.k = s.k", "dialect": "ansi", "metadata": None},
    # one CTE referenced under different aliases in different scopes, an alias of one scope naming another CTE elsewhere
    {"sql": "insert into t with w1 as (select a, b from s1), w2 as (select a as c from w1) select m.c as o from w2 m union all select m.b as o from w2 k left join w1 m on k.x = m.x", "dialect": "ansi", "metadata": None},
    {"sql": "insert into t with w1 as (select a, b from s1), w2 as (select a as c from w1) (select m.c as o from w2 m join w2 n on m.k = n.k) except (select n.b as o from w2 m left join w1 n on m.x = n.x)", "dialect": "ansi", "metadata": None},
    {"sql": "create table t as select m.c as o from (select c from s2) m where m.c in (select m.b from s1 k join (select c as b from s2) m on k.x = m.x)", "dialect": "ansi", "metadata": None},
    {"sql": "insert into t select x.a from ta x join tb y on x.k = y.k union all select y.a from ta y join tb x on x.k = y.k", "dialect": "ansi", "metadata": None},
    # alias-less derived tables (their generated names carry a hash) sharing a column name under an unqualified star
    {"sql": "insert into tgt select * from (select id, x from t1) join (select id, y from t2) using (id)", "dialect": "sparksql", "metadata": None},
    {"sql": "insert into tgt select * from (select id, x from t1) join (select id, y from t2) using (id) join (select id, z from t3) using (id)", "dialect": "sparksql", "metadata": None},
    {"sql": "insert into tgt select id, x, y from (select id, x from t1) join (select id, y from t2) using (id)", "dialect": "sparksql", "metadata": None},
    {"sql": "create table tgt as select * from (select id, x from t1), (select id, y from t2)", "dialect": "ansi", "metadata": None},
    # a star over a derived table beside an anonymous WHERE sub-query (KF-38 under the legacy analyzer)
    {"sql": "insert into t select dq1.* from (select x.c as o from ta x) as dq1, (select y.d as o2 from tb y where y.e in (select f from tc)) dq2", "dialect": "non-validating", "metadata": None},
    {"sql": "insert into t select dq1.* from (select x.c as o from ta x) as dq1, (select y.d as o2 from tb y where y.e in (select f from tc)) dq2", "dialect": "ansi", "metadata": None},
]


SESSION_EXTRAS = [
    {"sql": "create table db.t as select a.x, a.y, a.z, a.w from db.a a; insert into db.t select b.p, b.q, b.r, b.s from db.b b", "dialect": "ansi", "metadata": {"zz.o": ["q"]}},
    {"sql": "insert into db.t select a.x1, a.y2, a.z3 from db.a a; insert into db.t select b.p, b.q, b.r from db.b b; insert into db.u select * from db.t", "dialect": "ansi", "metadata": {"zz.o": ["q"]}},
    {"sql": "create view db.v as select a.k, a.m, a.n, a.o, a.p from db.a a; insert into db.v select c1, c2, c3, c4, c5 from db.c", "dialect": "ansi", "metadata": {"db.c": ["c1", "c2", "c3", "c4", "c5"]}},
    {"sql": "create table t1 as select s.alpha, s.beta, s.gamma from s; update t1 set delta = s.d from s; insert into t2 select * from t1", "dialect": "ansi", "metadata": {"zz.o": ["q"]}},
]


def pub(rec):
    out = {"outcome_type": "ok" if rec["outcome"] == "ok" else rec["outcome"]["exc_type"]}
    for k in PUBLIC[1:]:
        out[k] = rec.get(k)
    if rec.get("anon_subquery_names") and out.get("column_paths"):
        # the runner orders paths by printed names; generated subquery names legitimately vary with the hash seed
        out["column_paths"] = sorted(out["column_paths"])
    return out


def diff_fields(a, b):
    return [k for k in PUBLIC if a.get(k) != b.get(k)]


def _all_acc(cases):
    from vlib.observe import ALL_ACCESSORS

    for c in cases:
        c.setdefault("order", list(ALL_ACCESSORS))
    return cases


def workload(tier, rnd):
    cases = common.corpus_cases(tier, want=())
    if tier == "quick":
        # a seeded 60 % of the corpus per run (every case is visited within a few seeds); thorough takes all of it
        r0 = common.rng("c11-corpus")
        cases = [c for c in cases if r0.random() < 0.6 or c["metadata"]]
    for e in EXTRAS:
        c = dict(e)
        c.update({"silent": False, "want": [], "src": "extra"})
        cases.append(c)
    try:
        from . import genload
        cases += genload.cases_for_determinism(tier, rnd)
    except ImportError:
        pass
    # scripts whose later statements depend on what earlier ones taught the session (provider in use): chains from C04's generator
    from . import c04
    for g in c04.chains("quick", common.rng("c11-chains"))[: (120 if tier == "quick" else 260)]:
        cases.append({"sql": g["sql"], "dialect": "ansi", "metadata": c04.MD, "silent": False, "want": [], "src": "chain"})
    for e in SESSION_EXTRAS:
        c = dict(e)
        c.update({"silent": False, "want": [], "src": "extra"})
        cases.append(c)
    return _all_acc(cases)


def run(tier):
    run_ = evidence.Run(PID, tier, rule=RULE)
    rnd = common.rng("c11")
    cases = workload(tier, rnd)
    seeds = ["0", "1", "2", "3"] if tier == "quick" else [str(i) for i in range(24)] + ["4294967295", "123456789", "random", "7"]
    per = max(2, NCPU // len(seeds)) if tier == "quick" else 4
    run_.need("cross_process_comparisons")
    run_.need("accessor_order_comparisons")
    run_.need("same_provider_repetitions")
    ref = None
    allrecs = {}
    # run in waves of pools so that at most NCPU workers exist at a time
    wave = max(1, NCPU // per)
    for w0 in range(0, len(seeds), wave):
        pools = [(s, Pool(per, hashseed=s)) for s in seeds[w0:w0 + wave]]
        try:
            import threading

            def go(s, p):
                allrecs[s] = p.map("vlib.observe:run_case", cases, timeout=180)

            ths = [threading.Thread(target=go, args=sp) for sp in pools]
            for t in ths:
                t.start()
            for t in ths:
                t.join()
            if w0 == 0:
                # same process repetition + accessor permutations, in the reference pool
                p0 = pools[0][1]
                rep = p0.map("vlib.observe:run_case", cases, timeout=180)
                perm_cases = []
                for c in cases:
                    order = list(__import__("vlib.observe", fromlist=["ALL_ACCESSORS"]).ALL_ACCESSORS)
                    rnd.shuffle(order)
                    order = order + [rnd.choice(order) for _ in range(rnd.randint(1, 4))]
                    rnd.shuffle(order)
                    pc = dict(c)
                    pc["order"] = order
                    perm_cases.append(pc)
                perm = p0.map("vlib.observe:run_case", perm_cases, timeout=180)
                # repetitions through one provider object
                md_idx = [i for i, c in enumerate(cases) if c.get("metadata") and (tier == "thorough" or c.get("src") in ("chain", "extra") or i % 3 == 0)]
                same = dict(zip(md_idx, p0.map("vlib.observe:run_same_provider", [cases[i] for i in md_idx], timeout=400)))
        finally:
            for _, p in pools:
                p.close()
    s0 = seeds[0]
    for i, case in enumerate(cases):
        st, r0 = allrecs[s0][i]
        if not run_.pool_status(st, r0, common.brief(case)):
            run_.case()
            continue
        a = pub(r0)
        ok = a["outcome_type"] == "ok"
        run_.case(common.case_key(case), nontrivial=ok,
                  sample={"case": common.brief(case), "seeds": seeds, "record_digest": evidence.sha(a)} if ok and i % 150 == 0 else None)
        differing = {}
        for s in seeds[1:]:
            st2, r2 = allrecs[s][i]
            if not run_.pool_status(st2, r2, common.brief(case)):
                continue
            run_.observe("cross_process_comparisons")
            d = diff_fields(a, pub(r2))
            if d:
                differing[s] = d
        if differing:
            s = sorted(differing)[0]
            b = pub(allrecs[s][i][1])
            det = {"fields": differing, "seed_a": s0, "seed_b": s, "a": {k: a[k] for k in differing[s]}, "b": {k: b[k] for k in differing[s]}}
            run_.judge(dict(common.brief(case), seeds=[s0, s]), "hashseed_dependent", det, kf_id=kf.c11(case, det))
        st3, r3 = rep[i]
        if run_.pool_status(st3, r3, common.brief(case)):
            run_.observe("cross_process_comparisons")
            d = diff_fields(a, pub(r3))
            if d:
                run_.judge(common.brief(case), "repetition_differs", {"fields": d}, kf_id=None)
        if i in same:
            st5, r5 = same[i]
            if run_.pool_status(st5, r5, common.brief(case)):
                for k, rk in enumerate(r5):
                    run_.observe("same_provider_repetitions")
                    d = diff_fields(a, pub(rk))
                    if d:
                        b = pub(rk)
                        run_.judge(common.brief(case), "repetition_on_the_same_provider_differs", {"repetition": k + 1, "fields": d, "a": {f: a[f] for f in d}, "b": {f: b[f] for f in d}}, kf_id=None)
                        break
        st4, r4 = perm[i]
        if run_.pool_status(st4, r4, common.brief(case)):
            run_.observe("accessor_order_comparisons")
            d = diff_fields(a, pub(r4))
            if d:
                b = pub(r4)
                run_.judge(dict(common.brief(case), order=perm_cases[i]["order"]), "accessor_order_dependent",
                           {"fields": d, "a": {k: a[k] for k in d}, "b": {k: b[k] for k in d}}, kf_id=None)
    run_.extra["hash_seeds"] = seeds
    run_.assumptions = ["subquery_<hash> names are canonicalised from the SubQuery node's own text; export lists are compared as sorted node/edge lists without edge ids"]
    return run_.finish()


def replay(path):
    rep = common.load_replay(path)
    case = dict(rep["case"])
    seeds = case.pop("seeds", ["0", "1", "2", "3"])
    case.pop("order", None)
    recs = []
    for s in seeds:
        with Pool(1, hashseed=s) as p:
            recs.append(p.call(0, "vlib.observe:run_case", case, timeout=180))
    pubs = [pub(r) for st, r in recs if st == "ok"]
    bad = any(diff_fields(pubs[0], x) for x in pubs[1:])
    print("differs" if bad else "equal", seeds)
    if bad:
        print(f"VIOLATION property={PID} replay={path}")
    return 1 if bad else 0
