"""C14 - a default schema equals explicit qualification (differential monitor at AST level)."""
import random
import re

from vlib import evidence, sqlgen
from vlib.pool import Pool, NCPU
from . import common

PID = "C14"
RULE = ("script = 1-3 (some 6-10) generated statements rendered (a) with unqualified table names and analysed under default schema S and (b) with every unqualified table name written S.name "
        "and analysed with no default; S in {fresh name, a name already used as a qualifier in the script}; mechanism in {SQLLINEAGE_DEFAULT_SCHEMA set before import, set after "
        "import, scoped SQLLineageConfig(DEFAULT_SCHEMA=S)}; both analyzers; tables, column pairs and both exports must be equal; with no default every owner prints <default>; "
        "non-trivial = both analyses returned and the script has at least one unqualified table; distinct by (script, S, mechanism, analyzer)")

FIELDS = ["source", "target", "intermediate", "column_pairs", "cyto_table", "cyto_column"]


def build(tier, rnd):
    n = 260 if tier == "quick" else 4000
    g = sqlgen.Gen(random.Random(common.env.seed() * 32452843 + 3), qualify_p=0.25, scalar_p=0.12)
    kinds = ["insert", "insert", "ctas", "create_view", "bare", "insert_cols", "update_from", "merge", "with_insert", "create_like", "insert_values", "drop", "rename"]
    out = []
    # the last n // 12 scripts are long ones (6-10 statements)
    for i in range(n + n // 12):
        stmts = []
        for _ in range(rnd.choice([1, 1, 2, 3]) if i < n else rnd.randint(6, 10)):
            k = rnd.choice(kinds)
            if k == "rename":
                t = g.target()
                st = sqlgen.Stmt("rename", t, None, None, {"to": g.target()})
            elif k == "drop":
                st = sqlgen.Stmt("drop", g.target())
            else:
                st = g.statement(rnd.choice([0, 1, 1, 2]) if i < n else rnd.choice([0, 0, 1]), kinds=[k])
            stmts.append(st)
        out.append(stmts)
    # statement-local names that collide with table names: a CTE (or derived-table alias) spelled like the bare name of a table the statement
    # reads under an explicit schema - sa, which is also one of the default schemas tried - or without one
    from vlib.sqlgen import Base, CteRef, Derived, Group, Item, Select, Stmt, With, col
    for i in range(12 if tier == "quick" else 80):
        nm = f"tb_cn{i}"
        inner_schema = rnd.choice(["sa", "sa", "sb"])  # never unqualified: WITH t AS (SELECT .. FROM t) is read by the tool as a self-reference
        body_tab = Base(nm, inner_schema)
        cte_q = Select([Item(col("c_1")), Item(col("c_2"), "o_2")], [Group(body_tab)])
        k = i % 3
        if k == 0:
            q = With([(nm, cte_q)], Select([Item(col("c_1", nm)), Item(col("o_2"))], [Group(CteRef(nm))]))
        elif k == 1:
            q = With([(nm, cte_q)], Select([Item(col("c_1", nm)), Item(col("c_3", "x1"))], [Group(CteRef(nm), [("inner", Base(f"tb_co{i}", rnd.choice([None, "sa"]), "x1"), "on")])]))
        else:
            q = Select([Item(col("c_1", nm)), Item(col("o_2", nm))], [Group(Derived(cte_q, nm))])
        out.append([Stmt(rnd.choice(["insert", "ctas"]), Base(f"tb_cw{i}", rnd.choice([None, "sa"])), q)])
    return out


def view(r):
    if r["outcome"] != "ok":
        return {"outcome": r["outcome"]["exc_type"]}
    v = {"outcome": "ok"}
    for f in FIELDS:
        v[f] = _anon(r.get(f))
    return v


_ANON = re.compile(r"subquery#[0-9a-f]{8}")


def _anon(x):
    """anonymous sub-queries are named after their text, which differs between the two renderings by construction: neutralise and re-sort"""
    import json

    s = json.dumps(x)
    if "subquery#" not in s:
        return x
    y = json.loads(_ANON.sub("subquery#", s))
    if isinstance(y, dict) and "nodes" in y:
        y["nodes"].sort(key=lambda d: json.dumps(d, sort_keys=True))
        y["edges"].sort()
    elif isinstance(y, list):
        y.sort(key=lambda d: json.dumps(d, sort_keys=True))
    return y


def _md(j):
    return {"metadata": j["metadata"], "provider": "dummy"} if j.get("metadata") else {}


def _rk(j, which):
    import json
    return (j[which], j["dialect"], json.dumps(j.get("metadata"), sort_keys=True))


def run(tier):
    run_ = evidence.Run(PID, tier, rule=RULE)
    rnd = common.rng("c14")
    scripts = build(tier, rnd)
    jobs = []  # (mechanism, S, analyzer, unq_sql, q_sql, has_unqualified)
    for i, stmts in enumerate(scripts):
        unq = ";\n".join(sqlgen.render(s) for s in stmts)
        for S in (("zs_fresh", "sa") if i % 2 == 0 else ("sa", "zs_fresh"))[: 2 if tier == "thorough" or i % 3 == 0 else 1]:
            q = ";\n".join(sqlgen.render(s, default_schema=S, qualify_default=True) for s in stmts)
            for analyzer in (["ansi", "non-validating"] if i % 4 == 0 else ["ansi"]):
                for mech in ("scoped", "env_after_import", "env_before_import"):
                    jobs.append({"mech": mech, "S": S, "dialect": analyzer, "unq": unq, "q": q, "has_unq": unq != q, "phantoms": phantoms(stmts),
                                 "tags": sorted(set().union(*[s.tags() for s in stmts]) | set().union(*[set(sqlgen.risk(s)) for s in stmts]))})
    # tables that exist only as string arguments (vertica swap_partitions_between_tables): created without an explicit schema
    for i in range(4):
        for S in ("zs_fresh", "sa"):
            for d in ("vertica", "non-validating"):
                unq = f"select swap_partitions_between_tables('tb_sw{i}', 1, 2, 'tb_tg{i}')"
                q = f"select swap_partitions_between_tables('{S}.tb_sw{i}', 1, 2, '{S}.tb_tg{i}')"
                for mech in ("scoped", "env_after_import", "env_before_import"):
                    jobs.append({"mech": mech, "S": S, "dialect": d, "unq": unq, "q": q, "has_unq": True, "tags": ["stmt.swap_partitions"]})
    # dialect-specific spellings of table names: tsql temporary tables (#t, ##t), bracket-quoted names, bigquery back-quoted names
    for i in range(4):
        for S in ("zs_fresh", "sa"):
            forms = [
                ("tsql", f"select c1, c2 into #st{i} from tb_a{i}; insert into tb_b{i} select c1 from #st{i}",
                 f"select c1, c2 into {S}.#st{i} from {S}.tb_a{i}; insert into {S}.tb_b{i} select c1 from {S}.#st{i}"),
                ("tsql", f"insert into ##gt{i} select c1 from [tb_a{i}]; select * from ##gt{i}",
                 f"insert into {S}.##gt{i} select c1 from {S}.[tb_a{i}]; select * from {S}.##gt{i}"),
                ("bigquery", f"insert into `tb_b{i}` select c1 from `tb_a{i}`", f"insert into `{S}`.`tb_b{i}` select c1 from `{S}`.`tb_a{i}`"),
                ("mysql", f"insert into `tb_b{i}` select c1 from `tb_a{i}` x", f"insert into `{S}`.`tb_b{i}` select c1 from `{S}`.`tb_a{i}` x"),
            ]
            for d, unq, q in forms:
                for mech in ("scoped", "env_after_import", "env_before_import"):
                    jobs.append({"mech": mech, "S": S, "dialect": d, "unq": unq, "q": q, "has_unq": True, "tags": ["stmt.dialect_specific_names"]})
    # with a catalog that knows the tables under S: unqualified columns over a join, stars, positional INSERT - the completed names are looked up too
    for i in range(6):
        for S in ("zs_fresh", "sa"):
            md = {f"{S}.tb_ca{i}": ["cu_a", "c1", "k"], f"{S}.tb_cb{i}": ["cu_b", "c2", "k"], f"{S}.tb_ct{i}": ["t1", "t2"], "zz.other": ["q"]}
            forms = [
                (f"insert into tb_cz{i} select cu_a, cu_b from tb_ca{i} x join tb_cb{i} y on x.k = y.k", f"insert into {S}.tb_cz{i} select cu_a, cu_b from {S}.tb_ca{i} x join {S}.tb_cb{i} y on x.k = y.k"),
                (f"insert into tb_cz{i} select * from tb_ca{i}", f"insert into {S}.tb_cz{i} select * from {S}.tb_ca{i}"),
                (f"insert into tb_ct{i} select x.c1, x.k from tb_ca{i} x", f"insert into {S}.tb_ct{i} select x.c1, x.k from {S}.tb_ca{i} x"),
                (f"create table tb_cz{i} as select cu_a from tb_ca{i}, tb_cb{i}; insert into tb_cy{i} select * from tb_cz{i}",
                 f"create table {S}.tb_cz{i} as select cu_a from {S}.tb_ca{i}, {S}.tb_cb{i}; insert into {S}.tb_cy{i} select * from {S}.tb_cz{i}"),
            ]
            unq, q = forms[i % len(forms)]
            for d in ("ansi", "non-validating") if i % 2 else ("ansi",):
                for mech in ("scoped", "env_after_import", "env_before_import"):
                    jobs.append({"mech": mech, "S": S, "dialect": d, "unq": unq, "q": q, "has_unq": True, "tags": ["stmt.with_catalog"], "metadata": md})
    for k in ("pairs_compared", "env_before_import_compared", "scoped_compared", "env_after_import_compared", "no_default_uniform_checked", "env_after_a_closed_scope_compared", "scoped_after_the_same_text_under_another_schema_compared"):
        run_.need(k)
    ref_cases = {}
    for j in jobs:
        ref_cases.setdefault(_rk(j, "q"), {"sql": j["q"], "dialect": j["dialect"], "want": [], **_md(j)})
        ref_cases.setdefault(_rk(j, "unq"), {"sql": j["unq"], "dialect": j["dialect"], "want": [], **_md(j)})
    keys = list(ref_cases)
    with Pool() as pool:
        rres = pool.map("vlib.observe:run_case", [ref_cases[k] for k in keys], timeout=180)
        refs = {k: r for k, (s, r) in zip(keys, rres) if s == "ok"}
        live = [j for j in jobs if j["mech"] != "env_before_import"]
        lcases = [{"sql": j["unq"], "dialect": j["dialect"], "want": [], **_md(j), **({"config": {"DEFAULT_SCHEMA": j["S"]}} if j["mech"] == "scoped" else {"env": {"SQLLINEAGE_DEFAULT_SCHEMA": j["S"]}})} for j in live]
        lres = pool.map("vlib.observe:run_case", lcases, timeout=180)
    results = {id(j): x for j, x in zip(live, lres)}
    # history mechanism: an earlier, closed scope set another default schema on the same thread; the analysed script then runs inside a scope that
    # does not mention DEFAULT_SCHEMA, the default coming from the environment
    hist = [dict(j, mech="env_after_a_closed_scope") for j in live if j["mech"] == "env_after_import"][:: (3 if tier == "quick" else 1)]
    with Pool() as pool:
        hres = pool.map("vlib.observe:run_sequence",
                        [[{"sql": "select k from stale_tab", "dialect": "ansi", "want": [], "config": {"DEFAULT_SCHEMA": "stale_zz"}},
                          {"sql": j["unq"], "dialect": j["dialect"], "want": [], **_md(j), "env": {"SQLLINEAGE_DEFAULT_SCHEMA": j["S"]}, "config": {"LATERAL_COLUMN_ALIAS_REFERENCE": False}}] for j in hist], timeout=240)
    for j, (st_, rs) in zip(hist, hres):
        results[id(j)] = (st_, rs[1] if st_ == "ok" else rs)
    # same-text history: the very same script was analysed a moment ago in this process under ANOTHER default schema (anything remembered per text
    # must not carry the earlier schema over)
    hist2 = [dict(j, mech="scoped_after_the_same_text_under_another_schema") for j in live if j["mech"] == "scoped" and j["has_unq"]][:: (2 if tier == "quick" else 1)]
    with Pool() as pool:
        h2res = pool.map("vlib.observe:run_sequence",
                         [[{"sql": j["unq"], "dialect": j["dialect"], "want": [], **_md(j), "config": {"DEFAULT_SCHEMA": "stale_zz"}},
                           {"sql": j["unq"], "dialect": j["dialect"], "want": [], **_md(j), "config": {"DEFAULT_SCHEMA": j["S"]}}] for j in hist2], timeout=240)
    for j, (st_, rs) in zip(hist2, h2res):
        results[id(j)] = (st_, rs[1] if st_ == "ok" else rs)
    jobs = jobs + hist + hist2
    for S in ("zs_fresh", "sa"):
        sub = [j for j in jobs if j["mech"] == "env_before_import" and j["S"] == S]
        if not sub:
            continue
        with Pool(NCPU // 2, extra_env={"SQLLINEAGE_DEFAULT_SCHEMA": S}) as pool:
            res = pool.map("vlib.observe:run_case", [{"sql": j["unq"], "dialect": j["dialect"], "want": [], **_md(j)} for j in sub], timeout=180)
        for j, x in zip(sub, res):
            results[id(j)] = x
    # no default: the placeholder schema is used uniformly
    ok_owner = re.compile(r"^(<default>|sa|sb)\.")
    for (sql, d, _m), r in refs.items():
        if r["outcome"] == "ok" and any(sql == j["unq"] for j in jobs[:400]):
            run_.observe("no_default_uniform_checked")
            names = list(r["source"]) + list(r["target"]) + list(r["intermediate"])
            bad = [n for n in names if not n.startswith("path:") and not ok_owner.match(n)]
            if bad:
                run_.judge({"sql": sql, "dialect": d}, "placeholder_schema_not_uniform", {"names": bad}, kf_id=None)
    for j in jobs:
        st, r = results.get(id(j), ("missing", None))
        b = {"sql": j["unq"], "qualified_sql": j["q"], "dialect": j["dialect"], "default_schema": j["S"], "mechanism": j["mech"]}
        if not run_.pool_status(st, r, b):
            run_.case()
            continue
        ref = refs.get(_rk(j, "q"))
        if ref is None:
            run_.inconc("no reference record")
            continue
        a, e = view(r), view(ref)
        both = a["outcome"] == "ok" and e["outcome"] == "ok"
        run_.case(evidence.sha((j["unq"], j["S"], j["mech"], j["dialect"])), nontrivial=both and j["has_unq"],
                  sample={"unqualified": j["unq"], "qualified": j["q"], "S": j["S"], "mechanism": j["mech"]} if both and j["has_unq"] and len(run_.samples) < 4 else None)
        if a["outcome"] != e["outcome"]:
            if {a["outcome"], e["outcome"]} <= {"ok", "InvalidSyntaxException", "UnsupportedStatementException"} and "ok" not in (a["outcome"], e["outcome"]):
                continue
            run_.judge(b, "outcome_differs", {"with_default": a["outcome"], "qualified": e["outcome"]}, kf_id=None)
            continue
        if not both:
            continue
        run_.observe("pairs_compared")
        run_.observe(j["mech"] + "_compared")
        diff = [f for f in FIELDS if a[f] != e[f]]
        if diff:
            run_.judge(b, "default_schema_differs_from_qualification:" + j["mech"], {"fields": diff, "with_default": {f: a[f] for f in diff[:2]}, "qualified": {f: e[f] for f in diff[:2]}},
                       kf_id=classify(j, diff, a, e))
    run_.assumptions = ["column qualifiers that name an un-aliased table are left as written in both renderings (both are valid SQL)"]
    return run_.finish()


def _resort(x, S):
    import json

    y = json.loads(json.dumps(x).replace("<default>.", S + "."))
    if isinstance(y, dict) and "nodes" in y:
        y["nodes"].sort(key=lambda d: json.dumps(d, sort_keys=True))
        y["edges"].sort()
    elif isinstance(y, list):
        y.sort(key=lambda d: json.dumps(d, sort_keys=True))
    return y


def _uniq(y):
    import json

    u = lambda xs: sorted({json.dumps(d, sort_keys=True) for d in xs})  # noqa: E731
    if isinstance(y, dict) and "nodes" in y:
        return {"nodes": u(y["nodes"]), "edges": u(y["edges"])}
    return u(y) if isinstance(y, list) else y


def phantoms(stmts):
    """names that known findings turn into phantom tables of a select-item sub-query: outer aliases used by correlated references (KF-43) and the
    schema part of schema.table.column references inside such a sub-query (KF-39)"""
    corr, sch = set(), set()
    for st in stmts:
        tags = st.tags()
        if "select.scalar_subquery" not in tags:
            continue
        for ex in sqlgen.all_exprs(st):
            if ex.kind == "col" and getattr(ex, "outer", False) and ex.q:
                corr.add(ex.q)
            if ex.kind == "col" and ex.q and getattr(ex, "qfull", None):
                sch.add(ex.qfull.split(".")[0])
    return {"KF-43": sorted(corr), "KF-39": sorted(sch)}


def _resort_names(x, S, names):
    import json

    t = json.dumps(x)
    for n in names:
        t = re.sub(r"(?<![\w.])(?:<default>|%s)\.%s(?![\w])" % (re.escape(S), re.escape(n)), "?." + n, t)
    y = json.loads(t)
    # a phantom named after an un-aliased outer table coincides with the real table on the default-schema side: duplicates are dropped
    uniq = lambda xs: sorted({json.dumps(d, sort_keys=True) for d in xs})  # noqa: E731
    if isinstance(y, dict) and "nodes" in y:
        return {"nodes": uniq(y["nodes"]), "edges": uniq(y["edges"])}
    elif isinstance(y, list):
        return uniq(y)
    return y


def classify(j, diff, a, e):
    # phantom tables of select-item sub-queries (KF-43: the outer alias of a correlated reference; KF-39: the schema part of schema.table.column)
    # exist on both sides; only their schema differs - the default on one side, the placeholder on the other. Nothing but those names may differ.
    ph = j.get("phantoms") or {}
    for kfid in ("KF-43", "KF-39"):
        names = ph.get(kfid) or []
        if names and all(_resort_names(a[f], j["S"], names) == _resort_names(e[f], j["S"], names) for f in diff):
            return kfid
    allnames = (ph.get("KF-43") or []) + (ph.get("KF-39") or [])
    if ph.get("KF-43") and ph.get("KF-39") and all(_resort_names(a[f], j["S"], allnames) == _resort_names(e[f], j["S"], allnames) for f in diff):
        return "KF-43"
    # KF-32 seen through the default schema: the qualifier of a relation the analyzer lost falls through to Table(qualifier),
    # which gets the default schema on one side and the placeholder on the other (the text says nothing about that qualifier's schema)
    for tag, kfid in (("where.in_subquery_comma_join", "KF-32"),):
        if tag in j.get("tags", []):
            if all(_resort(a[f], j["S"]) == _resort(e[f], j["S"]) for f in diff):
                return kfid
            # together with a phantom of KF-43 / KF-39 that coincides with a real table on the default-schema side (duplicates dropped)
            if allnames and all(_uniq(_resort(a[f], j["S"])) == _uniq(_resort(e[f], j["S"])) for f in diff):
                return kfid
    # KF-16e: the legacy analyzer takes the first part of schema.table.column as the qualifier, i.e. a table named after the schema - which then
    # gets the default schema on one side only
    if j["dialect"] == "non-validating" and "col.qualified_by_full_name" in j.get("tags", []):
        return "KF-16e"
    # KF-14g: the legacy analyzer parses 's.t (select ...)' and stars over nested derived tables differently from their unqualified spelling
    if j["dialect"] == "non-validating" and set(j.get("tags", [])) & {"setop.parenthesised", "select.star_qualified", "select.star"}:
        return "KF-14g"
    # KF-18: Table.__init__'s default argument schema=Schema() is evaluated once at import, so Table(name) creation sites that pass no
    # schema ignore a default schema configured later: the names that differ are exactly '<default>.x' where the qualified run says 'S.x'
    if j["mech"] == "env_before_import":
        return None
    sa = " ".join(map(str, [a[f] for f in diff]))
    se = " ".join(map(str, [e[f] for f in diff]))
    if "<default>." in sa and "<default>." not in se and sa.replace("<default>.", j["S"] + ".") == se:
        return "KF-18"
    return None


def replay(path):
    rep = common.load_replay(path)
    c = rep["case"]
    with Pool(1) as pool:
        case = {"sql": c["sql"], "dialect": c["dialect"], "want": []}
        if c["mechanism"] == "scoped":
            case["config"] = {"DEFAULT_SCHEMA": c["default_schema"]}
        else:
            case["env"] = {"SQLLINEAGE_DEFAULT_SCHEMA": c["default_schema"]}
        st, r = pool.call(0, "vlib.observe:run_case", case, timeout=180)
        st2, r2 = pool.call(0, "vlib.observe:run_case", {"sql": c["qualified_sql"], "dialect": c["dialect"], "want": []}, timeout=180)
    a, e = view(r), view(r2)
    bad = a != e
    print("differs" if bad else "equal")
    if bad:
        print(f"VIOLATION property={PID} replay={path}")
    return 1 if bad else 0
