"""C03 - script summary roles follow from per-statement reads and writes.
History monitor with a relational sequential model (vlib/roles.py) over the real SQLLineageHolder.of,
plus random scripts rendered to real SQL and run end to end through LineageRunner."""
import itertools

from vlib import evidence, roles
from vlib.pool import Pool, NCPU
from . import common

PID = "C03"
RULE = ("history = sequence of abstract statements (any read set x at-most-one write over 3 tables, DROP t, RENAME x TO y; 40 statements) rendered to SQL, "
        "parsed once by the real analyzer (sqlfluff ansi and sqlparse); for every prefix the real SQLLineageHolder.of is called and its edges/roles must be "
        "consistent with the relational role model fed with the observed per-statement facts; non-trivial = distinct history accepted by the monitor")


def script_cases(tier, rnd):
    """random scripts of 4-8 statements rendered to real SQL in several surface forms, run end to end (every prefix)."""
    n = 80 if tier == "quick" else 400
    T = ["ta", "tb", "tc", "td"]
    cases = []
    for i in range(n):
        dialect = rnd.choice(["ansi", "mysql", "ansi", "non-validating", "postgres"])
        stmts = []
        for _ in range(rnd.randint(4, 7)):
            k = rnd.random()
            R = rnd.sample(T, rnd.randint(1, 3))
            W = rnd.choice(T)
            if k < 0.30:
                frm = R[0] + "".join(f" join {r} on {R[0]}.k = {r}.k" for r in R[1:])
                stmts.append(f"insert into {W} select * from {frm}")
            elif k < 0.42:
                stmts.append(f"create table {W} as select {R[0]}.c1 from {R[0]}" + (f" where {R[0]}.k in (select k from {R[1]})" if len(R) > 1 else ""))
            elif k < 0.52:
                stmts.append("select * from " + ", ".join(R))
            elif k < 0.56 and dialect in ("ansi", "postgres"):
                stmts.append(f"select {R[0]}.c1 into {W} from {R[0]}")
            elif k < 0.60:
                stmts.append(f"insert into {W} values (1)")
            elif k < 0.68:
                stmts.append(f"with c as (select * from {R[0]}) insert into {W} select * from c")
            elif k < 0.80:
                stmts.append(f"drop table {rnd.choice(T)}")
            elif k < 0.95 or dialect != "mysql":
                x, y = rnd.sample(T, 2)
                stmts.append(f"alter table {x} rename to {y}")
            else:
                a, b, c, d = rnd.sample(T, 4)
                stmts.append(f"rename table {a} to {b}, {c} to {d}")
        for k in range(1, len(stmts) + 1):
            cases.append({"sql": ";\n".join(stmts[:k]), "dialect": dialect, "script": i, "prefix": k, "n": len(stmts)})
        # every statement of the script also on its own: the facts the model is fed must be the statement's, whatever preceded it
        for k, s1 in enumerate(stmts):
            cases.append({"sql": s1, "dialect": dialect, "script": ("alone", i, k), "prefix": 1, "n": 1, "alone_of": (i, k)})
    return cases


def judge_scripts(run_, cases, recs):
    by = {}
    alone = {}
    for c, (st, r) in zip(cases, recs):
        if c.get("alone_of") is not None:
            if st == "ok" and r["outcome"] == "ok" and len(r["per_statement"]) == 1:
                alone[tuple(c["alone_of"])] = r["per_statement"][0]["facts"]
            continue
        by.setdefault(c["script"], []).append((c, st, r))
    for sid, items in by.items():
        items.sort(key=lambda x: x[0]["prefix"])
        states = {roles.EMPTY}
        ok = True
        for c, st, r in items:
            if not run_.pool_status(st, r, common.brief(c)):
                ok = False
                break
            if r["outcome"] != "ok":
                # an exception is C10's business unless it comes from folding (graph library error)
                if r["outcome"]["exc_module"].startswith("networkx"):
                    run_.judge(common.brief(c), "fold_exception", r["outcome"], kf_id=None)
                else:
                    run_.counters["script_prefix_raised_" + r["outcome"]["exc_type"]] += 1
                ok = False
                break
            ps = r["per_statement"]
            if len(ps) != c["prefix"]:
                run_.inconc(f"statement tap saw {len(ps)} statements for prefix {c['prefix']}")
                ok = False
                break
            f = ps[-1]["facts"]
            fa = alone.get((sid, c["prefix"] - 1))
            if fa is not None:
                run_.observe("statement_facts_compared_with_the_statement_alone")
                if any(sorted(map(str, f[k2])) != sorted(map(str, fa[k2])) for k2 in ("read", "write", "drop", "rename")):
                    run_.judge(common.brief(c), "statement_facts_depend_on_preceding_statements",
                               {"in_script": {k2: f[k2] for k2 in ("read", "write", "drop", "rename")}, "alone": {k2: fa[k2] for k2 in ("read", "write", "drop", "rename")}}, kf_id=None)
                    ok = False
                    break
            fact = {"read": frozenset(f["read"]), "write": frozenset(f["write"]), "drop": tuple(f["drop"]), "rename": tuple(tuple(p) for p in f["rename"])}
            succ = set()
            for s in states:
                succ |= roles.step(s, fact)
            obs = (frozenset(tuple(e) for e in r["table_edges"]), frozenset(r["source"]), frozenset(r["target"]), frozenset(r["intermediate"]))
            states = roles.consistent(succ, obs)
            run_.observe("script_prefixes_checked")
            if not states:
                exp = sorted({(tuple(sorted(s[0])),) + tuple(tuple(sorted(x)) for x in roles.roles(s)) for s in succ})[:3]
                run_.judge(common.brief(c), "script_roles", {"observed": {"edges": sorted(obs[0]), "source": sorted(obs[1]), "target": sorted(obs[2]), "intermediate": sorted(obs[3])},
                                                             "allowed_examples": exp, "last_statement_facts": f}, kf_id=None)
                ok = False
                break
        run_.case(("script", items[0][0]["sql"] if not ok else items[-1][0]["sql"], items[0][0]["dialect"]), nontrivial=ok)


def run(tier):
    run_ = evidence.Run(PID, tier, rule=RULE)
    rnd = common.rng("c03")
    n = len(roles.catalog_sql())
    jobs = []
    hs = ["0"] if tier == "quick" else ["0", "1", "2"]
    for parser in ("sqlfluff", "sqlparse"):
        if tier == "quick":
            # all histories of length <= 2 (exhaustive) + seeded sample of length 3
            for shard in range(NCPU // 2):
                jobs.append({"parser": parser, "maxlen": 2, "first": list(range(shard, n, NCPU // 2)), "want_facts": shard == 0})
            for shard in range(NCPU // 2):
                jobs.append({"parser": parser, "sample": {"n": 500, "len": 3, "seed": common.env.seed() * 100 + shard}})
        else:
            for shard in range(n):
                jobs.append({"parser": parser, "maxlen": 3, "first": [shard], "want_facts": shard == 0})
            for shard in range(NCPU):
                jobs.append({"parser": parser, "sample": {"n": 3000, "len": 4, "seed": common.env.seed() * 100 + shard}})
    for k in ("histories_checked", "prefix_observations", "script_prefixes_checked", "statement_facts_compared_with_the_statement_alone"):
        run_.need(k)
    tot = {"histories": 0, "prefixes": 0, "underspecified_steps": 0, "with_drop_or_rename": 0, "final_states": 0}
    facts = None
    for h in hs:
        with Pool(hashseed=h) as pool:
            res = pool.map("vlib.roles:explore", jobs, timeout=1800)
            sc = script_cases(tier, common.rng("c03s" + h))
            for c in sc:
                c["want"] = []
            srecs = pool.map("vlib.observe:run_case", sc, timeout=120)
        for job, (st, r) in zip(jobs, res):
            if not run_.pool_status(st, r, {k: job[k] for k in job if k != "first"}):
                run_.case()
                continue
            for k in tot:
                tot[k] += r[k]
            run_.observe("histories_checked", r["histories"])
            run_.observe("prefix_observations", r["prefixes"])
            if r.get("facts") and facts is None:
                facts = r["facts"]
            if r["holders_mutated"]:
                run_.inconc(f"SQLLineageHolder.of mutated its input holders: {r['holders_mutated'][:3]} (holder reuse unsound)")
            for v in r["violations"]:
                run_.judge({"history": v["history"], "parser": job["parser"], "hashseed": h}, "history_" + v["kind"], v, kf_id=None)
            run_.counters["max_state_set"] = max(run_.counters["max_state_set"], r["max_state_set"])
        judge_scripts(run_, sc, srecs)
    run_.evaluations += tot["histories"]
    run_.nontrivial |= {f"h{i}" for i in range(tot["histories"])}
    run_.samples = [{"history": ["insert into tb select * from ta", "alter table tb rename to tc", "drop table ta"],
                     "meaning": "abstract statements rendered to SQL; facts taken from the real analyzer"},
                    {"catalog_facts_first_8": (facts or [])[:8]}]
    run_.exhaustive = True
    run_.extra.update({"totals": tot, "hash_seeds": hs, "n_abstract_statements": n,
                       "exhaustive_note": ("all histories of length <= 2" if tier == "quick" else "all histories of length <= 3") + " over the 40-statement catalog, per parser; longer histories and scripts are sampled"})
    run_.assumptions = ["SQLLineageHolder.of does not mutate the statement holders it is given (checked by snapshot on every shard)",
                        "per-statement facts come from the statement tap; the monitor judges folding, not parsing"]
    return run_.finish()


def replay(path):
    rep = common.load_replay(path)
    c = rep["case"]
    if "history" in c:
        cat = roles.catalog_sql()
        idx = [[k for k, x in enumerate(cat) if x["sql"] == s][0] for s in c["history"]]
        # walk exactly this history
        job = {"parser": c["parser"], "sample": None}
        import json
        with Pool(1, hashseed=c.get("hashseed", "0")) as pool:
            st, r = pool.call(0, "vlib.roles:replay_history", {"parser": c["parser"], "history": idx}, timeout=300)
        print(st, json.dumps(r, default=str)[:1500])
        if st == "ok" and r["violations"]:
            print(f"VIOLATION property={PID} replay={path}")
            return 1
        return 0
    with Pool(1) as pool:
        st, r = pool.call(0, "vlib.observe:run_case", c, timeout=120)
    print(st, {k: r.get(k) for k in ("source", "target", "intermediate", "table_edges", "outcome")})
    return 0
