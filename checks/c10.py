"""C10 - total error contract; silent mode skips unsupported statements.
Invariant monitor on the outcome of every execution over a hostile mutation workload, an independent parse
oracle (sqlfluff's own parser) for 'unparsable => invalid syntax', and a silent-mode differential monitor."""
import random

from vlib import corpus, env, evidence, mutate
from vlib.pool import Pool
from . import common

PID = "C10"
RULE = ("input = corpus statement under token deletion/duplication/swap/insertion/replacement, truncation at every token, cross-over, bracket nesting to 30, "
        "templating/quoting metacharacters inside and outside literals, and corpus statements under other dialects; every accessor is touched; "
        "outcome must be a result or a sqllineage exception; non-trivial = distinct (text, dialect) whose outcome was observed; "
        "silent mode: an unsupported statement inserted at every position must warn and leave the result unchanged")

UNSUPPORTED = [("ansi", "create index ix on t1 (c1)"), ("ansi", "grant select on t1 to u1"), ("ansi", "begin"), ("ansi", "commit"),
               ("mysql", "create index ix on t1 (c1)"), ("postgres", "vacuum t1"), ("tsql", "begin transaction"), ("sparksql", "msck repair table t1"),
               ("ansi", "rollback"), ("snowflake", "create stage s1"), ("bigquery", "create schema d1")]


def dialects():
    from sqlfluff.core import dialect_readout

    return [d.label for d in dialect_readout()]


def workload(tier):
    fixed = random.Random("c10-fixed")
    seeded = common.rng("c10")
    base = corpus.single_statements()
    alld = dialects()
    cases = []

    def add(kind, sql, dialect, **kw):
        if len(sql) > 6000:
            return
        c = {"sql": sql, "dialect": dialect, "kind": kind, "oracle": True}
        c.update(kw)
        cases.append(c)

    nm = 10 if tier == "quick" else 40
    ns = 1 if tier == "quick" else 10
    for b in base:
        origin = [x["dialect"] for x in base if x["sql"] == b["sql"] and x["dialect"] != "non-validating"]
        for kind, s in mutate.mutants(b["sql"], fixed, nm):
            add(kind, s, b["dialect"], panel=origin)
        for kind, s in mutate.mutants(b["sql"], seeded, ns):
            add("seeded_" + kind, s, b["dialect"], panel=origin)
        for kind, s in mutate.metachar(b["sql"], fixed, 1 if tier == "quick" else 6):
            add(kind, s, b["dialect"], panel=origin)
    distinct = sorted({b["sql"] for b in base})
    # truncation at every token
    for s in distinct[:: (12 if tier == "quick" else 2)]:
        ds = [x["dialect"] for x in base if x["sql"] == s]
        for kind, t in mutate.truncations(s, step=1 if tier == "thorough" else 2):
            add(kind, t, ds[0], panel=[d for d in ds if d != "non-validating"])
    # cross-over
    for i in range(300 if tier == "quick" else 4000):
        a, b = fixed.choice(base), fixed.choice(base)
        kind, s = mutate.crossover(a["sql"], b["sql"], fixed)
        add(kind, s, a["dialect"])
    # every corpus statement under other dialects
    for i, s in enumerate(distinct):
        others = alld + ["non-validating"]
        if tier == "quick":
            others = [others[(i + k * 7) % len(others)] for k in range(2)]
        for d in others:
            add("cross_dialect", s, d)
    # bracket nesting
    for s in distinct[:: (60 if tier == "quick" else 8)]:
        if s.strip().lower().startswith(("select", "with")):
            for depth in (1, 2, 5, 15, 30):
                for kind, t in mutate.nest(s, depth):
                    for d in ("ansi", "non-validating") if tier == "quick" else ("ansi", "mysql", "tsql", "non-validating"):
                        add(kind, t, d)
    for x in ["", " ", ";", ";;", "--", "/* */", "\n", "select", "(", ")", "''", "select 1;;select 2", "\x00", "select '", 'select "', "select * from",
              "insert into", "merge into t using", "update t set", "copy", "with a as (select 1)", "select * from t where x in (", "é", "select 1 as",
              "SELECT swap_partitions_between_tables('a', 1, 2)", "SELECT swap_partitions_between_tables()",
              "merge into t using s on t.k = s.k when not matched then insert (a) values (s.a, s.b)",
              "merge into t using s on t.k = s.k when not matched then insert (a, b) values (s.a)",
              "update t set a = 1, b = (select 1)", "insert into t (a, b) select 1", "insert into t (a) select 1, 2 from u",
              "create table t (a int, b int) as select 1", "SELECT seq4() FROM table(generator()) v", "select * from table(f(1)) t join lateral (select 1) u", "select * from (values (1)) as v", "alter table rename to", "rename table a to", "drop table"]:
        for d in (alld + ["non-validating"]) if tier == "thorough" else ["ansi", "vertica", "mysql", "tsql", "non-validating", "sparksql", "bigquery", "exasol", "oracle", "snowflake"]:
            add("handcrafted", x, d)
    return cases


def silent_cases(tier):
    fixed = random.Random("c10-silent")
    base = [b for b in corpus.single_statements() if b["dialect"] != "non-validating"]
    out = []
    n = 40 if tier == "quick" else 600
    for i in range(n):
        d, bad = UNSUPPORTED[i % len(UNSUPPORTED)]
        pool = [b["sql"].strip().rstrip(";") for b in base if b["dialect"] == d and ";" not in b["sql"].strip().rstrip(";")]
        if len(pool) < 3:
            continue
        stmts = [fixed.choice(pool) for _ in range(fixed.randint(1, 3))]
        for k in range(len(stmts) + 1):
            with_bad = stmts[:k] + [bad] + stmts[k:]
            out.append({"group": i, "pos": k, "dialect": d, "bad": bad, "plain": ";\n".join(stmts), "sql": ";\n".join(with_bad)})
    return out


def classify(case, res):
    o = res["outcome"]
    inner = o.get("inner_sqllineage") or [None, None]
    raising = o.get("raising") or [None, None]
    # KF-15a: any exception that sqlfluff itself raises from Linter.parse_string is not converted
    if inner[1] == "_list_specific_statement_segment" and str(raising[0]).startswith("dep:sqlfluff"):
        return "KF-15a"
    # KF-15d: the legacy analyzer performs no validation; malformed text escapes with whatever its handlers raise
    if (case["dialect"] == "non-validating" or res.get("sqlparse_on_stack")) and res.get("panel_accepting") == []:
        frames = [f[0] for f in o.get("frames", [])]
        if any(f.startswith("sqllineage/core/parser/sqlparse/") for f in frames) or case["dialect"] == "non-validating":
            return "KF-15d"
    return None


def run(tier):
    run_ = evidence.Run(PID, tier, rule=RULE)
    cases = workload(tier)
    sil = silent_cases(tier)
    for k in ("outcomes_observed", "library_exceptions_observed", "results_returned", "independent_parse_checks", "silent_comparisons", "accessor_calls_after_an_error"):
        run_.need(k)
    with Pool() as pool:
        res = pool.map("vlib.errors:run_mut", cases, timeout=120)
        # silent mode: (1) the unsupported statement alone must raise UnsupportedStatementException non-silently
        probes = [{"sql": b, "dialect": d} for d, b in UNSUPPORTED]
        pres = pool.map("vlib.errors:run_mut", probes, timeout=120)
        really_unsupported = {(p["dialect"], p["sql"]) for p, (st, r) in zip(probes, pres)
                              if st == "ok" and r["outcome"] != "ok" and r["outcome"]["exc_type"] == "UnsupportedStatementException"}
        sc = []
        for s in sil:
            if (s["dialect"], s["bad"]) in really_unsupported:
                sc.append({"sql": s["sql"], "dialect": s["dialect"], "silent": True, "want_public": True, "ref": s})
                sc.append({"sql": s["plain"], "dialect": s["dialect"], "silent": True, "want_public": True, "ref": s, "plain": True})
        sres = pool.map("vlib.errors:run_mut", [{k: v for k, v in c.items() if k not in ("ref", "plain")} for c in sc], timeout=120)
    common.check_taps(run_, [(st, r) for st, r in res])
    kinds = {}
    sites = {}
    for case, (st, r) in zip(cases, res):
        b = {"sql": case["sql"], "dialect": case["dialect"], "kind": case["kind"]}
        if not run_.pool_status(st, r, b):
            run_.case()
            continue
        run_.observe("outcomes_observed")
        o = r["outcome"]
        key = (case["sql"], case["dialect"])
        run_.case(evidence.sha(key), nontrivial=True,
                  sample={"case": b, "outcome": o if o == "ok" else o["exc_type"]} if len(run_.samples) < 6 and case["kind"] in ("insert", "meta_in_literal", "truncate", "nest_unbalanced", "crossover") else None)
        kinds.setdefault(case["kind"], {"ok": 0, "lib": 0, "escape": 0})
        if o == "ok":
            run_.observe("results_returned")
            kinds[case["kind"]]["ok"] += 1
            if "independent_accepts" in r:
                run_.observe("independent_parse_checks")
                if r["independent_accepts"] is False:
                    run_.judge(b, "unparsable_text_returned_a_result", {"n_statements": r["n_statements"], "n_tables": r["n_tables"]}, kf_id=None)
        elif o["is_library_exception"]:
            run_.observe("library_exceptions_observed")
            kinds[case["kind"]]["lib"] += 1
            run_.counters["lib_" + o["exc_type"]] += 1
            # the caller caught it and goes on asking the same runner
            for a in r.get("after_error") or []:
                run_.observe("accessor_calls_after_an_error")
                if a["result"] == "raised" and not a["is_library_exception"]:
                    run_.judge(b, "escaped_after_an_earlier_error:" + a["exc_type"], {"first_error": o["exc_type"], "accessor": a["accessor"], "then": a}, kf_id=None)
                    break
        else:
            kinds[case["kind"]]["escape"] += 1
            site = f"{o['exc_type']} @ {(o.get('inner_sqllineage') or ['?', '?'])[1]} / {(o.get('raising') or ['?'])[0]}"
            sites[site] = sites.get(site, 0) + 1
            kfid = classify(case, r)
            run_.judge(b, "escaped:" + site, {"outcome": o, "frames": r.get("frames"), "panel_accepting": r.get("panel_accepting")}, kf_id=kfid,
                       what=None)
    # silent mode comparisons
    it = iter(zip(sc, sres))
    for (c1, (st1, r1)), (c2, (st2, r2)) in zip(it, it):
        b = {"sql": c1["sql"], "dialect": c1["dialect"], "silent": True, "plain": c2["sql"]}
        if not (run_.pool_status(st1, r1, b) and run_.pool_status(st2, r2, b)):
            continue
        run_.case(evidence.sha(("silent", c1["sql"], c1["dialect"])), nontrivial=True)
        if r2["outcome"] != "ok":
            run_.counters["silent_plain_script_raised"] += 1
            continue
        run_.observe("silent_comparisons")
        if r1["outcome"] != "ok":
            run_.judge(b, "silent_mode_raised", r1["outcome"], kf_id=None)
            continue
        warned = [w for w in r1["warnings"] if "doesn't support analyzing statement type" in w[1] or "support" in w[1]]
        if not warned:
            run_.judge(b, "silent_mode_no_warning", {"warnings": r1["warnings"]}, kf_id=None)
        if r1["public"] != r2["public"]:
            diff = [k for k in r1["public"] if r1["public"][k] != r2["public"][k]]
            run_.judge(b, "silent_mode_changes_result", {"fields": diff, "with": {k: r1["public"][k] for k in diff}, "without": {k: r2["public"][k] for k in diff}}, kf_id=None)
        if len(r1["statements"] or []) != len(r2["statements"] or []) + 1:
            run_.judge(b, "silent_mode_statement_count", {"with": r1["statements"], "without": r2["statements"]}, kf_id=None)
    run_.extra.update({"by_kind": kinds, "escape_sites": sites, "dialects": sorted({c["dialect"] for c in cases}),
                       "unsupported_probes_confirmed": sorted(map(list, really_unsupported))})
    run_.assumptions = ["sqlfluff's Linter.parse_string is trusted as an independent parse oracle",
                        "malformed = rejected by sqlfluff under the statement's own dialects and a 10-dialect panel"]
    return run_.finish()


def replay(path):
    rep = common.load_replay(path)
    c = rep["case"]
    with Pool(1) as pool:
        st, r = pool.call(0, "vlib.errors:run_mut", {"sql": c["sql"], "dialect": c["dialect"], "oracle": True, "silent": c.get("silent", False)}, timeout=120)
    print(st, r.get("outcome") if r else None)
    o = (r or {}).get("outcome")
    bad = st == "ok" and ((o != "ok" and not o["is_library_exception"]) or r.get("independent_accepts") is False)
    if bad:
        print(f"VIOLATION property={PID} replay={path}")
    return 1 if bad else 0
