"""Helpers shared by the checks (master side)."""
import json
import os
import random

from vlib import corpus, env, evidence
from vlib.pool import Pool, NCPU


def rng(salt=""):
    return random.Random(f"{env.seed()}:{salt}")


def case_key(case):
    return evidence.sha({k: case.get(k) for k in ("sql", "dialect", "metadata", "silent", "config", "env", "provider")})


def brief(case):
    return {k: v for k, v in case.items() if k in ("sql", "dialect", "metadata", "silent", "config", "env", "provider", "src", "tags") and v}


def load_replay(path):
    with open(path) as f:
        return json.load(f)


def corpus_cases(tier, want=("inv",), rnd=None, limit=None):
    cases = []
    for r in corpus.all_cases():
        c = {"sql": r["sql"], "dialect": r["dialect"], "metadata": r["metadata"], "silent": r["silent"],
             "want": list(want), "src": r["src"]}
        cases.append(c)
    if limit and rnd:
        rnd.shuffle(cases)
        cases = cases[:limit]
    return cases


def check_taps(run, recs):
    """A refactoring that bypasses a tap must end inconclusive, not held."""
    miss = set()
    for st, r in recs:
        if st == "ok" and r and r.get("taps_missing"):
            miss.update(r["taps_missing"])
    if miss:
        run.inconc(f"taps missing: {sorted(miss)}")
        run.need("taps:" + ",".join(sorted(miss)))
