"""Helpers shared by the checks (master side)."""
import json
import os
import random

from vlib import corpus, env, evidence
from vlib.pool import Pool, NCPU


def rng(salt=""):
    return random.Random(f"{env.seed()}:{salt}")


def case_key(case):
    return evidence.sha({k: case.get(k) for k in ("sql", "dialect", "metadata", "silent", "config", "env", "provider", "file_path")})


def brief(case):
    return {k: v for k, v in case.items() if k in ("sql", "dialect", "metadata", "silent", "config", "env", "provider", "src", "tags") and v}


def load_replay(path):
    with open(path) as f:
        return json.load(f)


def corpus_cases(tier, want=("inv",), rnd=None, limit=None):
    cases = []
    for r in corpus.all_cases():
        c = {"sql": r["sql"], "dialect": r["dialect"], "metadata": r["metadata"], "silent": r["silent"],
             "want": list(want), "src": r["src"]}
        cases.append(c)
    if limit and rnd:
        rnd.shuffle(cases)
        cases = cases[:limit]
    return cases


def check_taps(run, recs):
    """A refactoring that bypasses a tap must end inconclusive, not held."""
    miss = set()
    for st, r in recs:
        if st == "ok" and r and r.get("taps_missing"):
            miss.update(r["taps_missing"])
    if miss:
        run.inconc(f"taps missing: {sorted(miss)}")
        run.need("taps:" + ",".join(sorted(miss)))


_SUPPORT = {}


def dialect_supports(dialect, feature):
    """does this dialect's own sqlfluff grammar know the core feature (natural_join, using_join)? Asked of sqlfluff with a probe statement:
    where the keyword is unknown the grammar silently parses it as a table alias, i.e. accepts the text with another meaning."""
    k = (dialect, feature)
    if k in _SUPPORT:
        return _SUPPORT[k]
    if dialect == "non-validating":
        _SUPPORT[k] = True
        return True
    from sqlfluff.core import FluffConfig, Linter, SQLLexError, SQLParseError

    probe = {"natural_join": "select ta.x from ta natural join tb", "using_join": "select ta.x from ta inner join tb using (k_1)"}[feature]
    ok = False
    try:
        parsed = Linter(config=FluffConfig(overrides={"dialect": dialect})).parse_string(probe)
        bad = [v for v in parsed.violations if isinstance(v, (SQLLexError, SQLParseError))]
        if not bad and parsed.tree is not None:
            aliases = [seg.raw.lower() for seg in parsed.tree.recursive_crawl("alias_expression")]
            ok = not aliases
    except Exception:
        ok = False
    _SUPPORT[k] = ok
    return ok


def is_core_for(dialect, tags):
    """a generated statement is 'core SQL' for a dialect only if the dialect's grammar knows every join form it uses"""
    t = set(tags)
    if "join.natural" in t and not dialect_supports(dialect, "natural_join"):
        return False
    if "join.cond_using" in t and not dialect_supports(dialect, "using_join"):
        return False
    return True
