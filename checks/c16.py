"""C16 - identifiers denote the same entity wherever they appear (reference-model monitor for names)."""
import itertools

from vlib import evidence
from vlib.pool import Pool
from . import common

PID = "C16"
RULE = ("case = one spelling {lower, UPPER, Mixed} x {unquoted, each quote style the dialect lexes} x {1-3 name parts} placed at one syntactic position {FROM item, target, column reference, "
        "column qualifier, alias, INSERT column list, written-then-read across two statements (table and column)}; a 12-line reference normaliser (unquoted -> lower; quoted -> verbatim "
        "without quotes; split at the last dot) predicts every printed table and column pair; exhaustive over the grid per dialect family; non-trivial = accepted by the dialect")

FAMILIES = {"ansi": ['"'], "snowflake": ['"'], "postgres": ['"'], "mysql": ["`"], "bigquery": ["`"], "sparksql": ["`"], "tsql": ["[", '"'], "non-validating": ['"', "`"]}
CASES = {"lower": "nm", "upper": "NM", "mixed": "Nm"}
NON_ASCII = {"dbx": "dbé", "scy": "scé", "tbz": "tbé", "colq": "colé", "alq": "alé"}
NON_ASCII_DIALECTS = ["postgres", "tsql", "duckdb", "non-validating"]


def spell(base, case, quote):
    s = {"lower": base.lower(), "upper": base.upper(), "mixed": base[0].upper() + base[1:].lower()}[case]
    if quote is None:
        return s
    return "[" + s + "]" if quote == "[" else quote + s + quote


def norm_part(p):
    """the reference normaliser"""
    if p[0] in "\"`":
        return p[1:-1]
    if p[0] == "[":
        return p[1:-1]
    return p.lower()


def norm_table(parts):
    schema = ".".join(norm_part(p) for p in parts[:-1]) or "<default>"
    return f"{schema}.{norm_part(parts[-1])}"


def adjusted_part(p, lower_quoted):
    return norm_part(p).lower() if lower_quoted else norm_part(p)


def grid(dialect, quotes, nm=None):
    """yield (position, sql, expected, adjust) ; expected = {source, target, pairs}; adjust describes the KF-16 defect-adjusted variant"""
    nm = nm or {k: k for k in ("dbx", "scy", "tbz", "colq", "alq")}
    out = []
    styles = [None] + quotes
    # control for the UPDATE positions: whether this dialect's UPDATE ... FROM yields column pairs at all is not a naming matter
    out.append(("update_control", "update ctl_t set c1 = s.c1 from src_t s", {"source": ["<default>.src_t"], "target": ["<default>.ctl_t"], "pairs": [["<default>.src_t.c1", "<default>.ctl_t.c1"]]}, None, None))
    for case, q in itertools.product(CASES, styles):
        for nparts in (1, 2, 3):
            parts = [spell(b, case, q) for b in [nm["dbx"], nm["scy"], nm["tbz"]][3 - nparts:]]
            name = ".".join(parts)
            T = norm_table(parts)
            # KF-16b: quoted non-lower-case schema parts are lower-cased while the table part is not
            Tb = (".".join(norm_part(p).lower() for p in parts[:-1]) or "<default>") + "." + norm_part(parts[-1])
            out.append(("from", f"insert into tgt_t select c1 from {name}", {"source": [T], "target": ["<default>.tgt_t"], "pairs": [[f"{T}.c1", "<default>.tgt_t.c1"]]},
                        {"source": [Tb], "target": ["<default>.tgt_t"], "pairs": [[f"{Tb}.c1", "<default>.tgt_t.c1"]]}, "KF-16b"))
            out.append(("target", f"insert into {name} select c1 from src_t", {"source": ["<default>.src_t"], "target": [T], "pairs": [["<default>.src_t.c1", f"{T}.c1"]]},
                        {"source": ["<default>.src_t"], "target": [Tb], "pairs": [["<default>.src_t.c1", f"{Tb}.c1"]]}, "KF-16b"))
            out.append(("table_written_then_read", f"insert into {name} select c1 from src_t; insert into fin_t select c1 from {name}",
                        {"source": ["<default>.src_t"], "target": ["<default>.fin_t"], "intermediate": [T], "pairs": [["<default>.src_t.c1", "<default>.fin_t.c1"]]},
                        {"source": ["<default>.src_t"], "target": ["<default>.fin_t"], "intermediate": [Tb], "pairs": [["<default>.src_t.c1", "<default>.fin_t.c1"]]}, "KF-16b"))
            # UPDATE: the spelled name as target (un-aliased), sources qualified by an alias / by a namesake that differs only in letter case
            out.append(("update_target", f"update {name} set c1 = s.c1 from src_t s", {"source": ["<default>.src_t"], "target": [T], "pairs": [["<default>.src_t.c1", f"{T}.c1"]]},
                        {"source": ["<default>.src_t"], "target": [Tb], "pairs": [["<default>.src_t.c1", f"{Tb}.c1"]]}, "KF-16b"))
            if nparts == 1 and norm_part(parts[-1]) != norm_part(parts[-1]).lower():
                low = norm_part(parts[-1]).lower()
                out.append(("update_target_beside_lowercase_namesake", f"update {name} set c1 = {low}.c1 from scx.{low}",
                            {"source": [f"scx.{low}"], "target": [T], "pairs": [[f"scx.{low}.c1", f"{T}.c1"]]}, None, None))
                out.append(("update_target_beside_lowercase_alias", f"update {name} set c1 = {low}.c1 from src_t {low}",
                            {"source": ["<default>.src_t"], "target": [T], "pairs": [["<default>.src_t.c1", f"{T}.c1"]]}, None, None))
            if nparts == 1:
                out.append(("qualifier", f"insert into tgt_t select {name}.c1 from {name}", {"source": [T], "target": ["<default>.tgt_t"], "pairs": [[f"{T}.c1", "<default>.tgt_t.c1"]]}, None, None))
            if nparts >= 2:
                # schema.table.column / db.schema.table.column references: the qualifier is the table part
                out.append(("column_qualified_by_full_name", f"insert into tgt_t select {name}.c1 from {name}", {"source": [T], "target": ["<default>.tgt_t"], "pairs": [[f"{T}.c1", "<default>.tgt_t.c1"]]},
                            {"source": [Tb], "target": ["<default>.tgt_t"], "pairs": [[f"{Tb}.c1", "<default>.tgt_t.c1"]]}, "KF-16b"))
            if nparts == 2:
                out.append(("qualifier_of_qualified_table", f"insert into tgt_t select {parts[-1]}.c1 from {name}", {"source": [T], "target": ["<default>.tgt_t"], "pairs": [[f"{T}.c1", "<default>.tgt_t.c1"]]},
                            {"source": [Tb], "target": ["<default>.tgt_t"], "pairs": [[f"{Tb}.c1", "<default>.tgt_t.c1"]]}, "KF-16b"))
        c = spell(nm["colq"], case, q)
        C = norm_part(c)
        # KF-16a: a quoted non-lower-case column keeps its case as a target but is lower-cased as a source
        Cs = C.lower()
        out.append(("column_reference", f"insert into tgt_t select {c} from src_t", {"source": ["<default>.src_t"], "target": ["<default>.tgt_t"], "pairs": [[f"<default>.src_t.{C}", f"<default>.tgt_t.{C}"]]},
                    {"source": ["<default>.src_t"], "target": ["<default>.tgt_t"], "pairs": [[f"<default>.src_t.{Cs}", f"<default>.tgt_t.{C}"]]}, "KF-16a"))
        out.append(("column_qualified", f"insert into tgt_t select src_t.{c} from src_t", {"source": ["<default>.src_t"], "target": ["<default>.tgt_t"], "pairs": [[f"<default>.src_t.{C}", f"<default>.tgt_t.{C}"]]},
                    {"source": ["<default>.src_t"], "target": ["<default>.tgt_t"], "pairs": [[f"<default>.src_t.{Cs}", f"<default>.tgt_t.{C}"]]}, "KF-16a"))
        out.append(("column_aliased", f"insert into tgt_t select c1 as {c} from src_t", {"source": ["<default>.src_t"], "target": ["<default>.tgt_t"], "pairs": [["<default>.src_t.c1", f"<default>.tgt_t.{C}"]]}, None, None))
        out.append(("insert_column_list", f"insert into tgt_t ({c}) select c1 from src_t", {"source": ["<default>.src_t"], "target": ["<default>.tgt_t"], "pairs": [["<default>.src_t.c1", f"<default>.tgt_t.{C}"]]}, None, None))
        out.append(("column_written_then_read", f"insert into mid_t select {c} from src_t; insert into fin_t select {c} from mid_t",
                    {"source": ["<default>.src_t"], "target": ["<default>.fin_t"], "intermediate": ["<default>.mid_t"], "pairs": [[f"<default>.src_t.{C}", f"<default>.fin_t.{C}"]]},
                    # defect-adjusted: the chain breaks at mid_t - written as C, read as lower(C)
                    {"source": ["<default>.src_t"], "target": ["<default>.fin_t"], "intermediate": ["<default>.mid_t"],
                     "pairs": sorted([[f"<default>.src_t.{Cs}", f"<default>.mid_t.{C}"], [f"<default>.mid_t.{Cs}", f"<default>.fin_t.{C}"]]) if C != Cs else [[f"<default>.src_t.{C}", f"<default>.fin_t.{C}"]]}, "KF-16a"))
        # the table is renamed between the write and the read: the column written under the old table name is found again under the new one
        out.append(("column_written_table_renamed_then_read", f"insert into stg_t select {c} from src_t; alter table stg_t rename to mid_t; insert into fin_t select {c} from mid_t",
                    {"source": ["<default>.src_t"], "target": ["<default>.fin_t"], "intermediate": ["<default>.mid_t"], "pairs": [[f"<default>.src_t.{C}", f"<default>.fin_t.{C}"]]}, None, None))
        a = spell(nm["alq"], case, q)
        out.append(("alias", f"insert into tgt_t select {a}.c1 from src_t {a}", {"source": ["<default>.src_t"], "target": ["<default>.tgt_t"], "pairs": [["<default>.src_t.c1", "<default>.tgt_t.c1"]]}, None, None))
        out.append(("alias_as", f"insert into tgt_t select {a}.c1 from src_t as {a}", {"source": ["<default>.src_t"], "target": ["<default>.tgt_t"], "pairs": [["<default>.src_t.c1", "<default>.tgt_t.c1"]]}, None, None))
        out.append(("derived_alias", f"insert into tgt_t select {a}.c1 from (select c1 from src_t) {a}", {"source": ["<default>.src_t"], "target": ["<default>.tgt_t"], "pairs": [["<default>.src_t.c1", "<default>.tgt_t.c1"]]}, None, None))
        # qualified wildcard through the spelled alias: over a table, over a derived table (expands to its columns), over a schema-qualified table
        out.append(("alias_star", f"insert into tgt_t select {a}.* from src_t {a}", {"source": ["<default>.src_t"], "target": ["<default>.tgt_t"], "pairs": [["<default>.src_t.*", "<default>.tgt_t.*"]]}, None, None))
        out.append(("derived_alias_star", f"insert into tgt_t select {a}.* from (select c1, c2 from src_t) {a}",
                    {"source": ["<default>.src_t"], "target": ["<default>.tgt_t"], "pairs": [["<default>.src_t.c1", "<default>.tgt_t.c1"], ["<default>.src_t.c2", "<default>.tgt_t.c2"]]}, None, None))
        out.append(("alias_star_qualified_table", f"insert into tgt_t select {a}.* from scy.src_t {a}", {"source": ["scy.src_t"], "target": ["<default>.tgt_t"], "pairs": [["scy.src_t.*", "<default>.tgt_t.*"]]}, None, None))
        if q is None:
            # unquoted identifiers compare case-insensitively: defined in one case pattern, referenced in another
            other = spell(nm["alq"], {"lower": "upper", "upper": "mixed", "mixed": "lower"}[case], None)
            out.append(("alias_other_case", f"insert into tgt_t select {other}.c1, {other}.* from src_t {a}",
                        {"source": ["<default>.src_t"], "target": ["<default>.tgt_t"], "pairs": [["<default>.src_t.*", "<default>.tgt_t.*"], ["<default>.src_t.c1", "<default>.tgt_t.c1"]]}, None, None))
            oc = spell(nm["colq"], {"lower": "upper", "upper": "mixed", "mixed": "lower"}[case], None)
            out.append(("column_other_case_across_statements", f"insert into mid_t select {c} from src_t; insert into fin_t select {oc} from mid_t",
                        {"source": ["<default>.src_t"], "target": ["<default>.fin_t"], "intermediate": ["<default>.mid_t"], "pairs": [[f"<default>.src_t.{nm['colq']}", f"<default>.fin_t.{nm['colq']}"]]}, None, None))
        out.append(("cte_name", f"insert into tgt_t with {a} as (select c1 from src_t) select {a}.c1 from {a}", {"source": ["<default>.src_t"], "target": ["<default>.tgt_t"], "pairs": [["<default>.src_t.c1", "<default>.tgt_t.c1"]]}, None, None))
    return out


def _ds(src, tgt, col="c1"):
    return {"source": sorted(src), "target": [tgt], "pairs": [[f"{src[0]}.{col}", f"{tgt}.{col}"]]}


DIALECT_SPELLINGS = [
    ("bigquery", "insert into my-proj.out_ds.t select c1 from my-proj.ds.a", _ds(["my-proj.ds.a"], "my-proj.out_ds.t")),
    ("bigquery", "insert into `my-proj`.out_ds.t select c1 from `my-proj.ds.a`", _ds(["my-proj.ds.a"], "my-proj.out_ds.t")),
    ("bigquery", "insert into my-proj-2.out_ds.t select x.c1 from other-proj.ds.a x join ds.b y on x.k = y.k", _ds(["other-proj.ds.a", "ds.b"], "my-proj-2.out_ds.t")),
    ("bigquery", "create table my-proj.ds.t2 as select c1 from my-proj.ds.t1; insert into fin_t select c1 from `my-proj.ds.t2`",
     {"source": ["my-proj.ds.t1"], "target": ["<default>.fin_t"], "intermediate": ["my-proj.ds.t2"], "pairs": [["my-proj.ds.t1.c1", "<default>.fin_t.c1"]]}),
    ("tsql", "insert into db1..t select c1 from db2..a", _ds(["db2..a"], "db1..t")),
    ("snowflake", "insert into db1..t select c1 from db2..a", _ds(["db2..a"], "db1..t")),
    ("tsql", "insert into srv.db1.sch.t select c1 from srv.db2.sch.a", _ds(["srv.db2.sch.a"], "srv.db1.sch.t")),
]


def ident_quotes(dialect):
    """which quote characters this dialect's own grammar treats as identifier quotes in a select list (asked of sqlfluff, a dependency)"""
    from sqlfluff.core import FluffConfig, Linter

    out = []
    lt = Linter(config=FluffConfig(overrides={"dialect": dialect}))
    for q, q2 in (('"', '"'), ("`", "`"), ("[", "]")):
        try:
            tree = lt.parse_string(f"select {q}Ab{q2} from t").tree
            if tree is not None and any(s.get_type() == "quoted_identifier" for s in tree.raw_segments) and "unparsable" not in tree.type_set():
                out.append(q)
        except Exception:
            pass
    return out


def obs(r):
    o = {"source": sorted(r["source"]), "target": sorted(r["target"]), "pairs": sorted(map(list, map(tuple, r["column_pairs"])))}
    if r["intermediate"]:
        o["intermediate"] = sorted(r["intermediate"])
    return o


def run(tier):
    run_ = evidence.Run(PID, tier, rule=RULE)
    fams = FAMILIES if tier == "thorough" else {k: FAMILIES[k] for k in ("ansi", "mysql", "tsql", "bigquery", "snowflake", "sparksql", "non-validating")}
    cases, meta = [], []
    for d, quotes in fams.items():
        for pos, sql, exp, adj, kfid in grid(d, quotes):
            cases.append({"sql": sql, "dialect": d, "want": []})
            meta.append((pos, exp, adj, kfid))
    # the same grid over names with a letter outside A-Z (case folding is not an ASCII affair), for dialects whose lexer takes such names unquoted
    for d in NON_ASCII_DIALECTS if tier == "quick" else NON_ASCII_DIALECTS + ["oracle", "redshift", "greenplum"]:
        for pos, sql, exp, adj, kfid in grid(d, fams.get(d) or ident_quotes(d), nm=NON_ASCII):
            cases.append({"sql": sql, "dialect": d, "want": []})
            meta.append((pos + ":non_ascii", exp, adj, kfid))
    # table names in spellings single dialects have: unquoted project ids with dashes (bigquery; the same entity as the back-quoted spellings),
    # an empty schema part (db..t), four-part names
    for d, sql, exp in DIALECT_SPELLINGS:
        cases.append({"sql": sql, "dialect": d, "want": []})
        meta.append(("dialect_table_spelling", exp, None, None))
    # the rename position under every dialect (each has its own parse-tree shape for ALTER TABLE ... RENAME TO)
    from . import c01 as _c01
    for d in _c01.dialects():
        cases.append({"sql": "insert into stg_t select c1 from src_t; alter table stg_t rename to mid_t; insert into fin_t select c1 from mid_t", "dialect": d, "want": []})
        meta.append(("column_written_table_renamed_then_read:every_dialect", {"source": ["<default>.src_t"], "target": ["<default>.fin_t"], "intermediate": ["<default>.mid_t"],
                                                                           "pairs": [["<default>.src_t.c1", "<default>.fin_t.c1"]]}, None, None))
    if tier == "thorough":
        from . import c01
        for d in c01.dialects():
            if d not in fams:
                for pos, sql, exp, adj, kfid in grid(d, ident_quotes(d)):
                    cases.append({"sql": sql, "dialect": d, "want": []})
                    meta.append((pos, exp, adj, kfid))
    # dotted names given as one string: the public Table model and the string arguments of vertica's swap_partitions_between_tables
    api_names = []
    for case, q in itertools.product(CASES, [None, '"', "`"]):
        for nparts in (1, 2, 3):
            api_names.append([spell(b, case, q) for b in ["dbx", "scy", "tbz"][3 - nparts:]])
            api_names.append([spell(b, case, q) for b in [NON_ASCII["dbx"], NON_ASCII["scy"], NON_ASCII["tbz"]][3 - nparts:]])
    for parts in api_names:
        if all(p[0] not in "\"`" for p in parts):
            name = ".".join(parts)
            T = norm_table(parts)
            for d in ("vertica", "non-validating"):
                cases.append({"sql": f"select swap_partitions_between_tables('{name}', 1, 2, 'tgt_t')", "dialect": d, "want": []})
                meta.append(("string_argument", {"source": [T], "target": ["<default>.tgt_t"], "pairs": []}, None, None))
    run_.need("spellings_compared")
    run_.need("model_api_names_checked")
    with Pool() as pool:
        recs = pool.map("vlib.observe:run_case", cases, timeout=180)
        ast, ares = pool.call(0, "vlib.names:table_api", {"names": [".".join(p) for p in api_names]}, timeout=120)
        pv_cases = [[c["sql"], c["dialect"], c["sql"].split(" from ", 1)[1]] for c, m in zip(cases, meta) if m[0] == "from" and c["dialect"] != "non-validating"]
        pst, pres = pool.call(1, "vlib.names:parsed_vs_built", {"cases": pv_cases}, timeout=600)
    run_.need("parsed_vs_built_equal_pairs")
    if run_.pool_status(pst, pres, "parsed_vs_built"):
        for r in pres:
            run_.case(evidence.sha(("pvb", r["sql"], r["dialect"])), nontrivial="exc" not in r)
            if r.get("equal_seen"):
                run_.observe("parsed_vs_built_equal_pairs")
            if r.get("bad"):
                run_.judge({"sql": r["sql"], "dialect": r["dialect"], "table_name": r["name"]}, "parsed_and_built_entities_equal_but_not_hash_compatible", {"problems": r["bad"], "parsed": r["parsed"], "built": r["built"]}, kf_id=None)
    if run_.pool_status(ast, ares, "table_api"):
        for parts, r in zip(api_names, ares):
            name = ".".join(parts)
            run_.case(evidence.sha(("api", name)), nontrivial=True)
            run_.observe("model_api_names_checked")
            if "exc" in r:
                run_.judge({"table_name": name}, "model_api_raised", r, kf_id=None)
                continue
            T = norm_table(parts)
            Tb = (".".join(norm_part(p).lower() for p in parts[:-1]) or "<default>") + "." + norm_part(parts[-1])
            if r.get("other_case_same") is False:
                run_.judge({"table_name": name}, "unquoted_name_in_another_letter_case_is_another_table", r, kf_id=None)
            if not (r["eq"] and r["hash_eq"] and r["col_eq"] and r["col_hash_eq"] and r["in_set"]):
                run_.judge({"table_name": name}, "equal_entities_do_not_hash_equally", r, kf_id=None)
            if r["str"] != T:
                run_.judge({"table_name": name}, "model_api_name_not_as_predicted", {"expected": T, "observed": r["str"]}, kf_id="KF-16b" if r["str"] == Tb and Tb != T else
                           "KF-16d" if len(parts) == 3 and parts[0][0] in "\"`" and r["str"] == parts[0][1:-1] + parts[0][0] + "." + parts[0][0] + parts[1][1:-1] + "." + norm_part(parts[2]) else None)
    positions = {}
    rejected = {}
    # dialects whose UPDATE ... FROM yields no column pairs even for a plain lower-case name: the UPDATE positions then compare tables only
    update_without_pairs = {case["dialect"] for case, m, (s, r) in zip(cases, meta, recs)
                            if m[0].split(":")[0] == "update_control" and s == "ok" and r["outcome"] == "ok" and not r["column_pairs"]}
    run_.extra["update_from_without_column_pairs"] = sorted(update_without_pairs)
    for case, (pos, exp, adj, kfid), (s, r) in zip(cases, meta, recs):
        b = {"sql": case["sql"], "dialect": case["dialect"], "position": pos}
        if not run_.pool_status(s, r, b):
            run_.case()
            continue
        if r["outcome"] != "ok":
            if r["outcome"]["exc_type"] in ("InvalidSyntaxException", "UnsupportedStatementException"):
                rejected[case["dialect"]] = rejected.get(case["dialect"], 0) + 1
                run_.case()
                continue
            run_.case(evidence.sha((case["sql"], case["dialect"])), nontrivial=True)
            run_.judge(b, "analysis_raised", r["outcome"], kf_id=None)
            continue
        run_.case(evidence.sha((case["sql"], case["dialect"])), nontrivial=True,
                  sample={"sql": case["sql"], "dialect": case["dialect"], "expected": exp} if len(run_.samples) < 5 and '"' in case["sql"] and "." in case["sql"].split("from")[-1] else None)
        run_.observe("spellings_compared")
        positions[pos] = positions.get(pos, 0) + 1
        e = dict(exp)
        if pos.startswith("update_") and case["dialect"] in update_without_pairs:
            e["pairs"] = []
            if adj is not None:
                adj = dict(adj, pairs=[])
            if pos.startswith("update_control"):
                run_.counters["update_control_without_pairs"] += 1
        e["pairs"] = sorted(e["pairs"])
        o = obs(r)
        if o == e:
            continue
        det = {"expected": e, "observed": o}
        k = None
        if adj is not None:
            a = dict(adj)
            a["pairs"] = sorted(a["pairs"])
            if o == a and a != e:
                k = kfid  # exactly the defect-adjusted reference: any other deviation on the same input is a violation
        if k is None and case["dialect"] == "non-validating":
            import json

            low = json.loads(json.dumps(e, ensure_ascii=False).replace("<default>", "\u0000").lower().replace("\u0000", "<default>"))
            pos0 = pos.split(":")[0]
            low["pairs"] = sorted(low["pairs"])
            quoted = any(ch in case["sql"] for ch in "\"`[")
            if (quoted and o == low) or (pos0 == "insert_column_list" and o["pairs"] == [["<default>.src_t.c1", "<default>.tgt_t.c1"]]):
                k = "KF-16c"
            if pos0 == "column_qualified_by_full_name" and o["source"] == low["source"] and o["target"] == low["target"]:
                first = low["source"][0].split(".")[0]
                if o["pairs"] == [[f"<default>.{first}.c1", "<default>.tgt_t.c1"]]:
                    k = "KF-16e"  # the legacy analyzer takes the first part of a multi-part column reference as its qualifier
        run_.judge(b, "name_not_as_predicted:" + pos, det, kf_id=k)
    run_.exhaustive = True
    run_.extra.update({"positions": positions, "not_accepted_by_dialect": rejected, "dialect_families": {k: v for k, v in fams.items()}})
    run_.assumptions = ["a quote style is tried only for dialect families whose lexer treats it as an identifier quote; a dialect that rejects the text is counted, not judged"]
    return run_.finish()


def replay(path):
    rep = common.load_replay(path)
    c = rep["case"]
    with Pool(1) as pool:
        st, r = pool.call(0, "vlib.observe:run_case", {"sql": c["sql"], "dialect": c["dialect"], "want": []}, timeout=180)
    o = obs(r) if st == "ok" and r["outcome"] == "ok" else None
    print(o)
    bad = o is not None and o != rep["detail"]["expected"]
    if bad:
        print(f"VIOLATION property={PID} replay={path}")
    return 1 if bad else 0
