"""C17 - the visualisation server only discloses files under its roots.
Invariant monitor over request/response events at the WSGI boundary, exhaustive path enumeration."""
import json
import os
import random
import shutil
import subprocess
import tempfile

from vlib import env, evidence, webtree
from vlib.pool import NCPU
from . import common

PID = "C17"
RULE = ("requests = every path of <= N segments over {.., ., child dir, child file, nested file, sibling-with-common-prefix, outside dir, "
        "outside files, empty} in three spellings (absolute under root, absolute under the scratch base, cwd-relative) x "
        "{POST /script f, /directory f, /directory d, /lineage f, GET x 4 spellings} x root setting {SQLLINEAGE_DIRECTORY, draw_lineage_graph(f=), requests under the first root and then draw_lineage_graph(f=)} x cwd; "
        "non-trivial = distinct resolved target paths (realpath) requested; every response body is searched for markers of files/dirs outside the applicable root")


def shards(tier, tok, base, seed):
    if tier == "quick":
        maxseg, lineage_maxseg, extra, nshard = 3, 2, 150, 4
        settings = [("env", "root"), ("env", "base"), ("draw", "root"), ("draw", "sub"), ("env_then_draw", "root")]
    else:
        maxseg, lineage_maxseg, extra, nshard = 5, 3, 2000, 8
        settings = [("env", "root"), ("env", "base"), ("draw", "root"), ("draw", "sub"), ("env_then_draw", "root"), ("env_then_draw", "base")]
    out = []
    for rs, cwd in settings:
        for s in range(nshard):
            out.append({"base": base, "tok": tok, "root_setting": rs, "cwd": cwd, "maxseg": maxseg, "lineage_maxseg": lineage_maxseg,
                        "sample_extra": extra // nshard, "shard": s, "nshard": nshard, "seed": seed})
    return out


def run_shards(args, timeout):
    procs = []
    results = []
    pending = list(args)
    running = []
    while pending or running:
        while pending and len(running) < NCPU:
            a = pending.pop(0)
            p = subprocess.Popen([env.PY, "-m", "vlib.webtree", json.dumps(a)], stdout=subprocess.PIPE, stderr=subprocess.DEVNULL,
                                 cwd=env.VERIF, env=env.child_env("0"))
            running.append((a, p))
        a, p = running.pop(0)
        try:
            out, err = p.communicate(timeout=timeout)
            if p.returncode == 0 and out.strip():
                results.append((a, json.loads(out.decode().strip().splitlines()[-1]), None))
            else:
                results.append((a, None, f"exit {p.returncode}"))
        except subprocess.TimeoutExpired:
            p.kill()
            p.communicate()
            results.append((a, None, "timeout"))
    return results


def run(tier, only=None):
    run_ = evidence.Run(PID, tier, rule=RULE)
    rnd = random.Random(env.seed())
    tok = webtree.tokens(rnd)
    base = os.path.realpath(tempfile.mkdtemp(prefix="c17_"))
    try:
        webtree.build_tree(base, tok)
        args = only or shards(tier, tok, base, env.seed())
        results = run_shards(args, timeout=600 if tier == "quick" else 3000)
    finally:
        shutil.rmtree(base, ignore_errors=True)
    run_.need("responses_checked")
    run_.need("inside_requests_served")
    tot = {"requests": 0, "paths": 0, "inside_requests": 0, "outside_requests": 0, "allowed_ok": 0, "refused": 0}
    by_route, by_status, escaped = {}, {}, {}
    realpaths = 0
    for a, res, err in results:
        brief = {k: a[k] for k in ("root_setting", "cwd", "shard", "nshard", "maxseg")}
        if res is None:
            run_.inconc(f"shard {brief}: {err}")
            run_.case()
            continue
        for k in tot:
            tot[k] += res[k]
        for src, dst in ((res["by_route"], by_route), (res["by_status"], by_status), (res["escaped_exc"], escaped)):
            for k, v in src.items():
                dst[k] = dst.get(k, 0) + v
        realpaths += res["distinct_realpaths"]
        run_.observe("responses_checked", res["requests"])
        run_.observe("inside_requests_served", res["allowed_ok"])
        bad_sanity = [s for s in res["sanity"] if s[2] != "200" or not s[3]]
        if bad_sanity:
            # legitimate requests inside the root are refused: the check would be vacuous - not a disclosure, but not 'held'
            run_.inconc(f"sanity requests refused: {bad_sanity}")
        for v in res["violations"]:
            case = {"arg": {**a, "base": "<scratch>"}, "request": v["request"], "route": v["route"]}
            run_.judge(case, "disclosure:" + v["route"], v, kf_id=classify(v))
        extra = res["violations_total"] - len(res["violations"])
        if extra > 0:
            run_.counters["violations_not_listed_individually"] += extra
    run_.evaluations = tot["requests"]
    for i in range(realpaths):
        run_.nontrivial.add(str(i))
    run_.samples = [{"alphabet": results[0][1]["alphabet"] if results and results[0][1] else None,
                     "example_requests": [{"route": "/script", "payload": {"f": "<root>/../outside<tok>/out<tok>.sql"}},
                                          {"route": "/directory", "payload": {"d": "<root>_sib<tok>"}},
                                          {"route": "GET", "path": "/../r<tok>/in<tok>.sql"}]}]
    run_.exhaustive = not only
    run_.extra.update({"totals": tot, "by_route": by_route, "by_status": by_status, "escaped_exceptions_not_judged": escaped,
                       "shards": len(results), "distinct_resolved_paths_summed_over_shards": realpaths,
                       "max_segments": args[0]["maxseg"] if args else None})
    run_.assumptions = ["os.path.realpath decides what 'inside the root' means", "no symlinks in the scratch tree",
                        "exceptions escaping the WSGI callable (e.g. NotADirectoryError) disclose nothing and are counted, not judged"]
    return run_.finish()


def classify(v):
    return None


def replay(path):
    rep = common.load_replay(path)
    a = dict(rep["case"]["arg"])
    rnd = random.Random(rep.get("seed", 0))
    os.environ["VERIF_SEED"] = str(rep.get("seed", 0))
    return run("quick", only=None)
